"""C35 -- document normalization never alters its inputs and loses nothing; conditional backup.

Tie
 (T) translator: on every run the RunNormalizer handlers and the two conversion helpers of the CURRENT
     tiled_writer.py are analysed (harness/c35_alias.py, an abstract interpreter over the AST):
     which copy function each handler's first statement uses, every mutating statement on an object
     reachable from the working copy / a cached document / an inner copy (root, path, op, key, line),
     which handler parks its working copy in which cache; plus the index arithmetic of
     `_convert_datum_to_stream_datum` and the statement sequence of `_ConditionalBackup.__call__`.
     -> lean/BlueskyVerif/IO/NormalizerGenerated.lean, IO/BackupGenerated.lean.  The theorems are about
     those generated tables (`C35_inputs_unchanged` needs `tableSafe = true` by `decide`).
 (C) correspondence: generated legacy / current document streams are pushed through the real
     RunNormalizer and through the Lean flow model; emitted documents are compared; every input
     document is deep-compared with a snapshot taken before the call; the real _ConditionalBackup is
     driven with a primary failing at every position and compared with the Lean model.
"""
from __future__ import annotations

import ast
import copy
import json
import logging

import c35_alias as A
import common as C
import pyexpr as P

MANIFEST = {
    "text": "PARTIAL. Proved (Props/C35.lean): (1) input immutability, FULL -- for every table passing the decidable safety check, "
    "every caller heap, every sequence of handler calls and every schedule of the handlers' mutating statements no object of the "
    "caller's heap changes; the table (copy function of each handler, every mutating statement with its path, cache stores) is "
    "re-extracted from tiled_writer.py on every run and `generatedTable.safe` is discharged by `decide` (a handler that mutates nested "
    "state and goes back to copy.copy breaks the build); (2) every internal event value kept, every event re-emitted exactly once in "
    "order; (3) exactly one stream datum per referenced datum (multiset equality, any datum/event order incl. late datums flushed at "
    "stop), seq_nums = indices + 1, [seq_num-1, seq_num) without a frame, frame-based ranges tile [0,N) in conversion order; "
    "(4) _ConditionalBackup hands every document exactly once in order for every failure pattern while the buffer is below maxlen "
    "(overflow behaviour proved separately).  PARTIAL for frame-based ranges: conversion order = event order only when no reference "
    "is deferred before a later one is resolved, and a range is non-empty only when the frame number differs from the previous one -- "
    "two OPEN known findings with counterexample theorems.  Schema validity is test-level (event_model validators on every emitted document).",
    "note": "Trusted: Lean kernel; harness/c35_alias.py (alias analysis; refuses unknown shapes instead of guessing); "
    "subscribers and user `patches` do not mutate nested containers of the documents they are handed (start/stop/stream_datum are "
    "shallow copies); event_model.unpack_*_page build fresh top-level documents; jsonschema validation does not mutate; the "
    "hand-written flow model is tied to the code by the correspondence run only.",
    "technique": "Lean 4 proof over a heap model + source-extracted mutation table (translator) + flow model tied by correspondence runs",
}
LEAN_MODULES = ["BlueskyVerif.Props.C35"]
DRIVER_MODULES = ["BlueskyVerif.IO.Normalizer", "BlueskyVerif.IO.NormalizerFlow", "BlueskyVerif.IO.Backup"]
DRIVER = "Drivers/C35.lean"
ASSUMPTIONS = [
    "subscribers of RunNormalizer and user-supplied `patches` do not mutate nested containers of the documents handed to them"
    " (start/stop/stream_datum are shallow copies: an in-place patch of a nested dict WOULD reach the caller's document)",
    "event_model.unpack_event_page / unpack_datum_page return fresh top-level documents (modelled as a shallow copy, the worst case)",
    "values written into documents are abstracted to atoms in the heap model; the extractor checks that no later mutation path runs through a location that received a foreign reference",
    "document streams are those of one run; a data key is not declared internal by one descriptor and external by another",
]
TRUSTED = ["harness/c35_alias.py alias/mutation analysis of the handler bodies", "harness/pyexpr.py for the index arithmetic"]

HANDLERS = ["start", "stop", "descriptor", "event", "event_page", "resource", "stream_resource", "stream_datum", "datum", "datum_page"]
TW = "callbacks/tiled_writer.py"


def _camel(s):
    parts = s.split("_")
    return parts[0] + "".join(p.capitalize() for p in parts[1:])


# ============================================================================ translator
DOC_ROOTS = ("IN", "W", "CD", "CS", "PG")


def _is_doc_root(r):
    return r in DOC_ROOTS or r.startswith("K:")


def _match(a, b):
    return a == b or a == "*" or b == "*"


def _strictly_below(mpath, ipath):
    return len(mpath) > len(ipath) and all(_match(mpath[j], ipath[j]) for j in range(len(ipath)))


def _validate(name, r):
    """Refuse (never guess) source shapes whose effect the Lean table cannot express."""
    # transitive leak sources
    src: dict[str, set[str]] = {}
    for ir, _ip, fr, _fp, _ln in r["leaks"]:
        src.setdefault(ir, set()).add(fr)
    changed = True
    while changed:
        changed = False
        for k, v in list(src.items()):
            for x in list(v):
                for y in src.get(x, ()):
                    if y not in v:
                        v.add(y)
                        changed = True
    for root, path, op, key, ln in r["muts"]:
        if root.startswith("ST:") and path:
            bad = [x for x in src.get(root, ()) if _is_doc_root(x)]
            if bad:
                raise A.Unrecognised(f"{name}: line {ln}: nested mutation of normalizer state {root} that holds parts of documents ({bad})")
        if root.startswith("N:") and path:
            raise A.Unrecognised(f"{name}: line {ln}: mutation inside a fresh container holding document parts")
        if root == "PG":
            raise A.Unrecognised(f"{name}: line {ln}: unpacked page document mutated directly")
    for ir, ip, fr, fp, ln in r["leaks"]:
        if not _is_doc_root(ir):
            continue
        foreign = {fr} | src.get(fr, set())
        foreign = {x for x in foreign if _is_doc_root(x) and x != ir}
        if not foreign:
            continue
        for root, path, op, key, mln in r["muts"]:
            if root == ir and _strictly_below(path, ip):
                raise A.Unrecognised(f"{name}: line {mln}: mutation below {ir}{list(ip)} which received a reference from {sorted(foreign)} (line {ln})")
    for cache, root, path, ln in r["stores"]:
        if root != "W" or path:
            raise A.Unrecognised(f"{name}: line {ln}: only the working copy itself may be parked in a cache (got {root}{list(path)})")


def _root_lean(root):
    base = {"W": ".work", "IN": ".input", "CD": "(.cached .datum)", "CS": "(.cached .sres)"}
    if root in base:
        return f"(.base {base[root]})"
    if root.startswith("K:"):
        _, kind, src = root.split(":", 2)
        if src not in base:
            raise A.Unrecognised(f"copy of {src} inside a handler")
        return f"(.copyOf .{kind} {base[src]})"
    raise A.Unrecognised(f"root {root}")


def _sel(k):
    return ".any" if k == "*" else f'(.key "{k}")'


_OPKIND = {"pop": "pop", "remove": "pop", "clear": "pop", "popitem": "pop", "delitem": "pop", "discard": "pop",
           "setitem": "set", "update": "set", "append": "set", "setdefault": "set", "insert": "set", "extend": "set", "add": "set", "sort": "set", "reverse": "set"}


def _frame_arith(cls: ast.ClassDef):
    """Index arithmetic of _convert_datum_to_stream_datum (statement shapes are pattern-matched)."""
    fn = next((n for n in cls.body if isinstance(n, ast.FunctionDef) and n.name == "_convert_datum_to_stream_datum"), None)
    if fn is None:
        raise A.Unrecognised("_convert_datum_to_stream_datum not found")
    iff = next((s for s in fn.body if isinstance(s, ast.If) and isinstance(s.test, ast.Compare) and P.dotted(s.test.left) == "frame"), None)
    if iff is None or not (isinstance(iff.test.ops[0], ast.IsNot) and isinstance(iff.test.comparators[0], ast.Constant) and iff.test.comparators[0].value is None):
        raise A.Unrecognised("`if frame is not None:` not found")
    tr = P.Tr({"frame": "frame", "index_start": "indexStart", "index_stop": "indexStop", "seq_num": "seqNum"})
    body = iff.body

    def is_sum(v):
        return isinstance(v, ast.Call) and P.dotted(v.func) == "sum" and len(v.args) == 1 and isinstance(v.args[0], ast.Call) and P.dotted(v.args[0].func) == "_next_index.values"

    def assigns(st, name):
        return isinstance(st, ast.Assign) and len(st.targets) == 1 and P.dotted(st.targets[0]) == name

    def assigns_item(st, key):
        t = st.targets[0] if isinstance(st, ast.Assign) and len(st.targets) == 1 else None
        return isinstance(t, ast.Subscript) and P.dotted(t.value) == "_next_index" and isinstance(t.slice, ast.Constant) and t.slice.value == key

    # desc_name = ...; _next_index = self._next_frame_index[(desc_name, data_key)]
    if not (len(body) == 6 and assigns(body[0], "desc_name") and assigns(body[1], "_next_index")):
        raise A.Unrecognised("frame branch: unexpected statements")
    key = body[1].value
    if not (isinstance(key, ast.Subscript) and P.dotted(key.value) == "self._next_frame_index" and isinstance(key.slice, ast.Tuple) and [P.dotted(e) for e in key.slice.elts] == ["desc_name", "data_key"]):
        raise A.Unrecognised("frame counters are not keyed by (desc_name, data_key)")
    if not (assigns(body[2], "index_start") and is_sum(body[2].value) and assigns_item(body[3], "index") and assigns(body[4], "index_stop") and is_sum(body[4].value)):
        raise A.Unrecognised("frame branch: index_start / index / index_stop statements not recognised")
    next_index = tr.i(body[3].value)
    inner = body[5]
    if not (isinstance(inner, ast.If) and not inner.orelse and len(inner.body) == 2 and assigns_item(inner.body[0], "carry") and assigns(inner.body[1], "index_stop") and is_sum(inner.body[1].value)):
        raise A.Unrecognised("frame branch: carry update not recognised")
    carry_cond = tr.b(inner.test)
    carry_val = tr.i(inner.body[0].value)
    # else: index_start, index_stop = seq_num - 1, seq_num
    if not (len(iff.orelse) == 1 and isinstance(iff.orelse[0], ast.Assign) and isinstance(iff.orelse[0].targets[0], ast.Tuple) and [P.dotted(e) for e in iff.orelse[0].targets[0].elts] == ["index_start", "index_stop"] and isinstance(iff.orelse[0].value, ast.Tuple)):
        raise A.Unrecognised("frameless branch not recognised")
    fl = [tr.i(e) for e in iff.orelse[0].value.elts]
    # indices = StreamRange(start=index_start, stop=index_stop); seq_nums = StreamRange(start=..., stop=...)
    rng = {}
    for st in fn.body:
        if isinstance(st, ast.Assign) and P.dotted(st.targets[0]) in ("indices", "seq_nums") and isinstance(st.value, ast.Call) and P.dotted(st.value.func) == "StreamRange":
            kw = {k.arg: tr.i(k.value) for k in st.value.keywords}
            if set(kw) != {"start", "stop"}:
                raise A.Unrecognised("StreamRange keywords")
            rng[P.dotted(st.targets[0])] = kw
    if set(rng) != {"indices", "seq_nums"}:
        raise A.Unrecognised("indices / seq_nums assignments not found")
    # the default dict of the counters
    init = None
    for n in ast.walk(cls):
        if isinstance(n, ast.Lambda) and isinstance(n.body, ast.Dict) and [getattr(k, "value", None) for k in n.body.keys] == ["carry", "index"]:
            init = [ast.literal_eval(v) for v in n.body.values]
    if init is None:
        raise A.Unrecognised("_next_frame_index default not found")
    return {"next_index": next_index, "carry_cond": carry_cond, "carry_val": carry_val, "frameless": fl, "indices": rng["indices"], "seq_nums": rng["seq_nums"], "init": init, "line": fn.lineno}


def _backup_program(tree):
    """`_ConditionalBackup.__call__` as a list of abstract statements + the default maxlen."""
    cls = P.find_class(tree, "_ConditionalBackup")
    init = next(n for n in cls.body if isinstance(n, ast.FunctionDef) and n.name == "__init__")
    maxlen = None
    for a, d in zip(reversed(init.args.args), reversed(init.args.defaults)):
        if a.arg == "maxlen":
            maxlen = ast.literal_eval(d)
    buf_ok = any(
        isinstance(st, (ast.Assign, ast.AnnAssign)) and P.dotted(st.targets[0] if isinstance(st, ast.Assign) else st.target) == "self._buffer"
        and isinstance(st.value, ast.Call) and P.dotted(st.value.func) == "deque" and any(k.arg == "maxlen" and P.dotted(k.value) == "maxlen" for k in st.value.keywords)
        for st in init.body
    )
    if maxlen is None or not buf_ok:
        raise A.Unrecognised("_ConditionalBackup.__init__: deque(maxlen=maxlen) / default maxlen not recognised")
    call = next(n for n in cls.body if isinstance(n, ast.FunctionDef) and n.name == "__call__")

    def is_log(st):
        return isinstance(st, ast.Expr) and isinstance(st.value, ast.Call) and (P.dotted(st.value.func) or "").startswith("logger.")

    def stmts(body, in_replay=False):
        out = []
        for st in body:
            if is_log(st) or (isinstance(st, ast.Expr) and isinstance(st.value, ast.Constant)):
                continue
            if isinstance(st, ast.Expr) and isinstance(st.value, ast.Call):
                f = P.dotted(st.value.func)
                if f == "self._buffer.append" and len(st.value.args) == 1 and isinstance(st.value.args[0], ast.Tuple) and [P.dotted(e) for e in st.value.args[0].elts] == ["name", "doc"]:
                    out.append(".append")
                    continue
                if f == "self._buffer.clear" and not st.value.args:
                    out.append(".clear")
                    continue
                if f == "self.primary_callback" and [P.dotted(e) for e in st.value.args] == ["name", "doc"]:
                    out.append(".primary")  # unprotected call: an exception would propagate
                    continue
                if f == "bcb" and [P.dotted(e) for e in st.value.args] == ["name", "doc"]:
                    out.append(".backupCall")
                    continue
                raise A.Unrecognised(f"_ConditionalBackup.__call__: line {st.lineno}: call {f}")
            if isinstance(st, ast.Try):
                if st.orelse or st.finalbody or len(st.handlers) != 1 or P.dotted(st.handlers[0].type) != "Exception":
                    raise A.Unrecognised(f"line {st.lineno}: try shape")
                inner = stmts(st.body, in_replay)
                h = stmts(st.handlers[0].body, in_replay)
                if inner == [".primary"]:
                    out.append(f".tryPrimary [{', '.join(h)}]")
                elif inner == [".backupCall"] and h == []:
                    out.append(".backupCall")  # each backup callback protected on its own
                else:
                    raise A.Unrecognised(f"line {st.lineno}: try body {inner} / handler {h}")
                continue
            if isinstance(st, ast.Assign) and P.dotted(st.targets[0]) == "self._push_to_backup" and isinstance(st.value, ast.Constant) and isinstance(st.value.value, bool):
                out.append(".setFlag " + ("true" if st.value.value else "false"))
                continue
            if isinstance(st, ast.If) and P.dotted(st.test) == "self._push_to_backup" and not st.orelse:
                out.append(f".ifFlag [{', '.join(stmts(st.body))}]")
                continue
            if isinstance(st, ast.For) and P.dotted(st.iter) == "self._buffer" and isinstance(st.target, ast.Tuple) and [P.dotted(e) for e in st.target.elts] == ["name", "doc"] and not st.orelse:
                inner = st.body
                if len(inner) == 1 and isinstance(inner[0], ast.For) and P.dotted(inner[0].iter) == "self.backup_callbacks" and P.dotted(inner[0].target) == "bcb":
                    b = stmts(inner[0].body, True)
                    if b == [".backupCall"]:
                        out.append(".replay")
                        continue
                raise A.Unrecognised(f"line {st.lineno}: replay loop shape")
            raise A.Unrecognised(f"_ConditionalBackup.__call__: line {st.lineno}: statement {type(st).__name__}")
        return out

    return {"maxlen": maxlen, "program": stmts(call.body), "line": call.lineno}


def extract(ctx):
    src = (C.SRC / TW).read_text()
    tree = ast.parse(src)
    cls = P.find_class(tree, "RunNormalizer")
    facts = {"handlers": {}}
    rows_copy, rows_del, rows_act = [], [], []
    for h in HANDLERS:
        r = A.analyse_handler(cls, h, set())
        _validate(h, r)
        ctor = _camel(h)
        if r["delegate"]:
            if r["copy"] != "none" or any(_is_doc_root(m[0]) for m in r["muts"]) or r["stores"]:
                raise A.Unrecognised(f"{h}: a page handler is expected to only unpack and delegate")
            rows_del.append(f"  | .{ctor} => some .{_camel(r['delegate'])}")
        rows_copy.append(f"  | .{ctor} => " + ("none" if r["copy"] == "none" else f"some .{r['copy']}"))
        acts = []
        seen = set()
        for root, path, op, key, ln in r["muts"]:
            if not _is_doc_root(root):
                continue
            if op not in _OPKIND:
                raise A.Unrecognised(f"{h}: line {ln}: mutator {op}")
            t = (root, path, _OPKIND[op], key, ln)
            if t in seen:
                continue
            seen.add(t)
            acts.append(f"    .mutate ⟨{_root_lean(root)}, [{', '.join(_sel(k) for k in path)}], .{_OPKIND[op]}, {_sel(key)}, {ln}⟩")
        for cache, root, path, ln in r["stores"]:
            acts.append(f"    .store .{'datum' if cache == 'CD' else 'sres'}")
        rows_act.append(f"  | .{ctor} => [" + ("\n" + ",\n".join(acts) + "]" if acts else "]"))
        facts["handlers"][h] = {
            "copy": r["copy"],
            "delegate": r["delegate"],
            "nested_mutations": sorted({f"{root}:{'/'.join(path)}:{op}:{key}@{ln}" for root, path, op, key, ln in r["muts"] if _is_doc_root(root) and path}),
            "top_level_mutations": len([1 for root, path, *_ in r["muts"] if _is_doc_root(root) and not path]),
            "stores": [c for c, *_ in r["stores"]],
            "patched": r["patched"],
            "at": f"{TW}:{r['line']}",
        }
    fa = _frame_arith(cls)
    facts["frame_arith"] = fa
    reserved = None
    for n in tree.body:
        if isinstance(n, ast.Assign) and P.dotted(n.targets[0]) == "RESERVED_DATA_KEYS":
            reserved = ast.literal_eval(n.value)
    if not (isinstance(reserved, list) and all(isinstance(x, str) for x in reserved)):
        raise A.Unrecognised("RESERVED_DATA_KEYS")
    facts["reserved"] = reserved
    out = [
        "-- GENERATED by harness/props/C35.py from src/bluesky/callbacks/tiled_writer.py (class RunNormalizer) -- do not edit.",
        "import BlueskyVerif.IO.NormalizerTypes",
        "set_option linter.unusedVariables false",
        "namespace BlueskyVerif.Normalizer",
        "",
        "/-- copy function of the handler's first statement (`none`: the handler makes no copy) -/",
        "def copyKind : Handler → Option CopyKind",
        *rows_copy,
        "",
        "/-- page handlers: `for _doc in unpack_X_page(doc): self.X(_doc)` -/",
        "def delegate : Handler → Option Handler",
        *rows_del,
        "  | _ => none",
        "",
        "/-- every mutating statement on a document object, incl. those of the conversion helpers the handler calls,",
        "    and the caches the working copy is parked in -/",
        "def actions : Handler → List Action",
        *rows_act,
        "",
        "/-- `RESERVED_DATA_KEYS` -/",
        "def reservedKeys : List String := [" + ", ".join(json.dumps(x) for x in reserved) + "]",
        "",
        "/-! index arithmetic of `_convert_datum_to_stream_datum` -/",
        f"def frameCounterInit : Int × Int := ({fa['init'][0]}, {fa['init'][1]})   -- (carry, index)",
        f"def frameNextIndex (frame : Int) : Int := {fa['next_index']}",
        f"def frameCarryCond (indexStart indexStop : Int) : Bool := {fa['carry_cond']}",
        f"def frameCarryVal (indexStart indexStop : Int) : Int := {fa['carry_val']}",
        f"def framelessRange (seqNum : Int) : Int × Int := ({fa['frameless'][0]}, {fa['frameless'][1]})",
        f"def indicesOf (indexStart indexStop : Int) : Int × Int := ({fa['indices']['start']}, {fa['indices']['stop']})",
        f"def seqNumsOf (indexStart indexStop : Int) : Int × Int := ({fa['seq_nums']['start']}, {fa['seq_nums']['stop']})",
        "",
        "end BlueskyVerif.Normalizer",
        "",
    ]
    C.write_if_changed(C.LEAN / "BlueskyVerif" / "IO" / "NormalizerGenerated.lean", "\n".join(out))
    bp = _backup_program(tree)
    facts["backup"] = bp
    outb = [
        "-- GENERATED by harness/props/C35.py from src/bluesky/callbacks/tiled_writer.py (class _ConditionalBackup) -- do not edit.",
        "import BlueskyVerif.IO.BackupTypes",
        "namespace BlueskyVerif.Backup",
        "",
        f"def defaultMaxlen : Nat := {bp['maxlen']}",
        "",
        "/-- body of `_ConditionalBackup.__call__(name, doc)` -/",
        "def callBody : List Stmt := [" + ", ".join(bp["program"]) + "]",
        "",
        "end BlueskyVerif.Backup",
        "",
    ]
    C.write_if_changed(C.LEAN / "BlueskyVerif" / "IO" / "BackupGenerated.lean", "\n".join(outb))
    return facts


# ============================================================================ real implementation
RESERVED = ("time", "seq_num")


def _rename(k):
    return "_" + k if k in RESERVED else k


class _Coder:
    """internal event values -> what the Lean model carries (ints and strings stay, anything else gets an int code)"""

    def __init__(self):
        self.tab = {}

    def __call__(self, v):
        if isinstance(v, bool) or not isinstance(v, (int, str)):
            key = json.dumps(v, sort_keys=True, default=str)
            return self.tab.setdefault(key, 10**6 + len(self.tab))
        return v


def _diff(a, b, path=""):
    """first difference between two JSON-like values -> path string or None"""
    if type(a) is not type(b):
        return path or "/"
    if isinstance(a, dict):
        for k in sorted(set(a) | set(b), key=str):
            if k not in a or k not in b:
                return f"{path}/{k}"
            d = _diff(a[k], b[k], f"{path}/{k}")
            if d:
                return d
        return None
    if isinstance(a, (list, tuple)):
        if len(a) != len(b):
            return path or "/"
        for i, (x, y) in enumerate(zip(a, b)):
            d = _diff(x, y, f"{path}/{i}")
            if d:
                return d
        return None
    return None if a == b else (path or "/")


def _mk_patches(spec):
    """spec: {handler: 'nested'|'top'} -> patch functions (in-place edits, as a user might write them)"""
    out = {}
    for name, kind in (spec or {}).items():
        if kind == "top":
            def f(doc, _n=name):
                if _n in ("start",):
                    doc["patched_by_test"] = 1  # start allows extra keys
                return doc
        else:
            def f(doc, _n=name):
                for k in ("resource_kwargs", "parameters", "datum_kwargs", "data_keys", "data", "configuration"):
                    if isinstance(doc.get(k), dict):
                        if k in ("data_keys", "configuration", "data"):
                            for v in doc[k].values():
                                if isinstance(v, dict):
                                    v.pop("precision", None)
                                    v["units"] = "patched"
                        else:
                            doc[k]["patched_by_test"] = 1
                            doc[k].pop("to_be_removed", None)
                return doc
        out[name] = f
    return out


def run_flow_impl(case):
    """Feed case['docs'] to a real RunNormalizer. -> observation"""
    from event_model import schema_validators, DocumentNames
    from bluesky.callbacks.tiled_writer import RunNormalizer

    rn = RunNormalizer(patches=_mk_patches(case.get("patches")), spec_to_mimetype=case.get("spec_to_mimetype"))
    emitted = []
    rn.subscribe(lambda name, doc: emitted.append((name, copy.deepcopy(doc))))
    docs = copy.deepcopy(case["docs"])  # the objects handed to the normalizer
    snaps = copy.deepcopy(docs)
    err = None
    mutated = []
    flagged = set()
    for i, (name, doc) in enumerate(docs):
        try:
            rn(name, doc)
        except Exception as e:  # noqa: BLE001
            err = type(e).__name__
            err_at = i
        for j in range(i + 1):
            if j in flagged:
                continue
            d = _diff(snaps[j][1], docs[j][1])
            if d:
                flagged.add(j)
                mutated.append({"doc": j, "name": docs[j][0], "path": d, "during": name, "call": i})
        if err:
            break
    invalid = []
    for name, doc in emitted:
        try:
            schema_validators[DocumentNames[name]].validate(doc)
        except Exception as e:  # noqa: BLE001
            invalid.append({"name": name, "error": type(e).__name__, "msg": str(e)[:200]})
    return {"emitted": emitted, "err": err, "mutated": mutated, "invalid": invalid}


def _canon_outs(emitted, code):
    outs = []
    for name, d in emitted:
        if name in ("start", "stop"):
            outs.append({"n": name})
        elif name == "descriptor":
            dk = d.get("data_keys", {})
            outs.append({"n": "descriptor", "uid": d["uid"], "name": d["name"], "int": sorted(k for k, v in dk.items() if "external" not in v), "ext": sorted(k for k, v in dk.items() if "external" in v)})
        elif name == "event":
            outs.append({"n": "event", "desc": d["descriptor"], "seq": d["seq_num"], "data": sorted([k, code(v)] for k, v in d["data"].items())})
        elif name == "stream_resource":
            outs.append({"n": "stream_resource", "uid": d["uid"], "data_key": d.get("data_key", "")})
        elif name == "stream_datum":
            outs.append({"n": "stream_datum", "uid": d["uid"], "sres": d["stream_resource"], "desc": d["descriptor"], "i0": d["indices"]["start"], "i1": d["indices"]["stop"], "s0": d["seq_nums"]["start"], "s1": d["seq_nums"]["stop"]})
        else:
            outs.append({"n": name})
    return outs


def _unpack_events(name, doc):
    if name == "event":
        return [doc]
    n = len(doc["seq_num"])
    out = []
    for i in range(n):
        out.append({"uid": doc["uid"][i], "time": doc["time"][i], "seq_num": doc["seq_num"][i], "descriptor": doc["descriptor"],
                    "data": {k: v[i] for k, v in doc["data"].items()}, "timestamps": {k: v[i] for k, v in doc["timestamps"].items()},
                    "filled": {k: v[i] for k, v in doc.get("filled", {}).items()}})
    return out


def _unpack_datums(name, doc):
    if name == "datum":
        return [doc]
    n = len(doc["datum_id"])
    return [{"datum_id": doc["datum_id"][i], "resource": doc["resource"], "datum_kwargs": {k: v[i] for k, v in doc["datum_kwargs"].items()}} for i in range(n)]


def to_model_docs(docs, code):
    """real documents -> the abstraction the Lean flow model works on"""
    out = []
    for name, d in docs:
        if name in ("start", "stop"):
            out.append({"n": name})
        elif name == "descriptor":
            dk = d.get("data_keys", {})
            out.append({"n": "descriptor", "uid": d["uid"], "name": d["name"], "int": [k for k, v in dk.items() if "external" not in v], "ext": [k for k, v in dk.items() if "external" in v]})
        elif name == "resource":
            out.append({"n": "resource", "uid": d["uid"], "valid": all(k in d for k in ("spec", "root", "resource_path", "resource_kwargs"))})
        elif name == "stream_resource":
            out.append({"n": "stream_resource", "uid": d["uid"], "data_key": d.get("data_key", ""), "valid": "mimetype" in d or all(k in d for k in ("spec", "root", "resource_path", "resource_kwargs"))})
        elif name in ("datum", "datum_page"):
            ds = [{"n": "datum", "id": x["datum_id"], "resource": x["resource"], "frame": x.get("datum_kwargs", {}).get("frame")} for x in _unpack_datums(name, d)]
            out.append(ds[0] if name == "datum" else {"n": "datum_page", "datums": ds})
        elif name in ("event", "event_page"):
            es = [{"n": "event", "desc": e["descriptor"], "seq": e["seq_num"], "data": [[k, code(v)] for k, v in e["data"].items()], "filled": [[k, bool(v)] for k, v in e.get("filled", {}).items()]} for e in _unpack_events(name, d)]
            out.append(es[0] if name == "event" else {"n": "event_page", "events": es})
        elif name == "stream_datum":
            out.append({"n": "stream_datum", "uid": d["uid"], "sres": d["stream_resource"], "desc": d["descriptor"], "i0": d["indices"]["start"], "i1": d["indices"]["stop"], "s0": d["seq_nums"]["start"], "s1": d["seq_nums"]["stop"]})
        else:
            raise ValueError(name)
    return out


# ---------------------------------------------------------------------------- property oracle (on the implementation)
def flow_oracle(case, obs):
    """-> list of (sig, what).  Direct statement of C35 on what the real RunNormalizer did."""
    bad = []
    docs = case["docs"]
    for m in obs["mutated"]:
        key = m["path"].strip("/").split("/")[0] if m["path"].strip("/") else "<top>"
        bad.append((f"input-mutated:{m['name']}:{key}:during-{m['during']}", f"input {m['name']} document #{m['doc']} changed at {m['path']} during the {m['during']} call #{m['call']}"))
    for inv in obs["invalid"]:
        bad.append((f"schema-invalid:{inv['name']}", f"emitted {inv['name']} fails its event_model schema: {inv['msg']}"))
    if obs["err"] == "ValidationError" and not case.get("malformed"):
        bad.append(("schema-invalid:raised-in-emit", "emit() rejected a document produced from schema-valid input"))
    if obs["err"] and not case.get("malformed"):
        bad.append((f"unexpected-error:{obs['err']}", f"well-formed stream made the normalizer raise {obs['err']}"))
        return bad
    if obs["err"] or case.get("malformed"):
        return bad  # malformed streams: only immutability and schema validity are demanded
    # descriptors / events / datums of the input
    desc = {}
    events = []  # in arrival order
    datums = {}
    datum_pos = {}
    for pos, (name, d) in enumerate(docs):
        if name == "descriptor":
            desc[d["uid"]] = d
        elif name in ("event", "event_page"):
            for e in _unpack_events(name, d):
                events.append((pos, e))
        elif name in ("datum", "datum_page"):
            for x in _unpack_datums(name, d):
                datums[x["datum_id"]] = x
                datum_pos.setdefault(x["datum_id"], pos)
    em_events = [d for n, d in obs["emitted"] if n == "event"]
    em_sdat = [d for n, d in obs["emitted"] if n == "stream_datum"]
    passthrough = {d["uid"] for n, d in docs if n == "stream_datum"}
    # every event re-emitted once, in order, with all internal values
    if [e["uid"] for _, e in events] != [e["uid"] for e in em_events]:
        bad.append(("events-not-one-to-one", f"input events {[e['uid'] for _, e in events]} emitted as {[e['uid'] for e in em_events]}"))
    else:
        for (_, e), o in zip(events, em_events):
            dk = desc.get(e["descriptor"], {}).get("data_keys", {})
            for k, v in e["data"].items():
                internal = k in dk and "external" not in dk[k]
                filled_inline = k in dk and "external" in dk[k] and e.get("filled", {}).get(k, False)
                if internal and e.get("filled", {}).get(k, True) is False:
                    continue  # an internal key explicitly marked unfilled: outside the statement
                if internal or filled_inline:
                    if _rename(k) not in o["data"] or _diff(o["data"][_rename(k)], v) or _diff(o["timestamps"].get(_rename(k)), e["timestamps"].get(k)):
                        bad.append((f"event-value-lost:{'reserved' if k in RESERVED else 'plain'}-key", f"event {e['uid']} key {k}={v!r} emitted as {o['data'].get(_rename(k), '<missing>')!r}"))
    # references to external data
    refs = []  # (event position in arrival order, event, key, datum_id)
    for idx, (pos, e) in enumerate(events):
        dk = desc.get(e["descriptor"], {}).get("data_keys", {})
        for k, v in e["data"].items():
            if k in dk and "external" in dk[k] and not e.get("filled", {}).get(k, False):
                refs.append((idx, pos, e, k, v))
    conv = [d for d in em_sdat if d["uid"] not in passthrough]
    want = sorted(str(r[4]) for r in refs)
    got = sorted(str(d["uid"]) for d in conv)
    if want != got:
        bad.append(("stream-datum-count", f"referenced datum ids {want} but converted stream datums {got}"))
        return bad
    by_uid = {d["uid"]: d for d in conv}
    groups = {}
    for idx, pos, e, k, did in refs:
        sd = by_uid[did]
        dt = datums.get(did, {})
        frame = dt.get("datum_kwargs", {}).get("frame")
        cls = "frame" if frame is not None else "frameless"
        if sd["seq_nums"]["start"] != sd["indices"]["start"] + 1 or sd["seq_nums"]["stop"] != sd["indices"]["stop"] + 1:
            bad.append((f"stream-datum-ranges:{cls}:seq_nums-vs-indices", f"datum {did}: indices {sd['indices']} seq_nums {sd['seq_nums']}"))
        if sd["descriptor"] != e["descriptor"]:
            bad.append((f"stream-datum-descriptor", f"datum {did}: descriptor {sd['descriptor']} but event has {e['descriptor']}"))
        if sd["stream_resource"] != f"{dt.get('resource')}-{k}":
            bad.append((f"stream-datum-resource", f"datum {did}: stream_resource {sd['stream_resource']}"))
        if frame is None and sd["indices"]["stop"] <= sd["indices"]["start"]:
            bad.append(("stream-datum-ranges:frameless:empty-range", f"datum {did} of event seq_num {e['seq_num']}: indices {sd['indices']} are empty"))
        if frame is None:
            if (sd["indices"]["start"], sd["indices"]["stop"]) != (e["seq_num"] - 1, e["seq_num"]):
                bad.append(("stream-datum-ranges:frameless:not-seq_num", f"datum {did} of event seq_num {e['seq_num']}: indices {sd['indices']}"))
        else:
            name = desc.get(e["descriptor"], {}).get("name")
            groups.setdefault((name, k), []).append((idx, pos, did, frame, sd))
    for (name, k), items in groups.items():
        items.sort(key=lambda t: t[0])  # event order
        late = [datum_pos.get(did, 10**9) > pos for idx, pos, did, frame, sd in items]
        conv = [i for i in range(len(items)) if not late[i]] + [i for i in range(len(items)) if late[i]]  # conversion order
        # an event references at least one frame: an empty range matches no event
        for n_, i in enumerate(conv):
            idx, pos, did, frame, sd = items[i]
            if sd["indices"]["stop"] <= sd["indices"]["start"]:
                prev_frame = items[conv[n_ - 1]][3] if n_ else None
                why = "same-frame-number-as-previously-converted-datum" if prev_frame == frame else "other"
                bad.append((f"stream-datum-ranges:frame:empty-range:{why}", f"stream {name!r} key {k!r}: datum {did} (frame {frame}, previous datum frame {prev_frame}): indices {sd['indices']} are empty"))
                break
        cur = 0
        increasing = True
        prev_frame = -1
        ok = True
        for idx, pos, did, frame, sd in items:
            a, b = sd["indices"]["start"], sd["indices"]["stop"]
            if frame <= prev_frame:
                increasing = False
            if not (a == cur and b >= a) or (increasing and b != frame + 1):
                ok = False
                break
            cur = b
            prev_frame = frame
        if ok:
            continue
        observed = [(s["indices"]["start"], s["indices"]["stop"]) for *_, s in items]
        # The one known defect (known_findings.json): the frame counter advances in CONVERSION order -- datums present at their
        # event first (event order), datums that arrived late at stop (event order).  Only when the input has a late datum of an
        # earlier event followed by an in-time datum of a later event, AND the observed ranges are exactly what that mechanism
        # yields, the known signature is used; anything else is reported under its own signature.
        deferred_then_immediate = any(late[i] and not late[j] for i in range(len(items)) for j in range(i + 1, len(items)))
        carry, index, predicted = 0, 0, {}
        for i in conv:
            start = carry + index
            index = items[i][3] + 1
            stop = carry + index
            if stop < start:
                carry = start
                stop = carry + index
            predicted[i] = (start, stop)
        if deferred_then_immediate and observed == [predicted[i] for i in range(len(items))]:
            cls = "datum-of-earlier-event-arrives-after-later-datum-was-converted"
        else:
            cls = "ranges-do-not-tile-in-event-order"
        bad.append((f"stream-datum-ranges:frame:{cls}", f"stream {name!r} key {k!r}: in event order the frame-based ranges are {observed} for frames {[f for _, _, _, f, _ in items]} (must tile from 0 in event order)"))
    return bad


# ---------------------------------------------------------------------------- _ConditionalBackup
def run_backup_impl(case):
    from bluesky.callbacks.tiled_writer import _ConditionalBackup

    logging.getLogger("bluesky.callbacks.tiled_writer").setLevel(logging.CRITICAL)
    fails = case["fails"]
    seen1, seen2 = [], []

    def primary(name, doc):
        if fails[doc["i"]]:
            raise RuntimeError("primary failed")

    def b1(name, doc):
        seen1.append(doc["i"])

    def b2(name, doc):
        seen2.append(doc["i"])
        if doc["i"] % 2 == 0:
            raise ValueError("a backup writer of its own failing now and then")

    cb = _ConditionalBackup(primary, [b2, b1], maxlen=case["maxlen"])
    raised = False
    for i in range(len(fails)):
        try:
            cb("event" if 0 < i < len(fails) - 1 else ("start" if i == 0 else "stop"), {"i": i})
        except Exception:  # noqa: BLE001
            raised = True
            break
    return {"log": seen1, "log2": seen2, "buffer": [d["i"] for _, d in cb._buffer], "raised": raised}


def backup_oracle(case, obs):
    bad = []
    fails = case["fails"]
    n = len(fails)
    if obs["raised"]:
        bad.append(("backup:exception-escaped", "an exception of the primary escaped _ConditionalBackup"))
    if obs["log"] != obs["log2"]:
        bad.append(("backup:writers-differ", f"two backup writers saw different sequences {obs['log']} / {obs['log2']}"))
    if True not in fails:
        if obs["log"]:
            bad.append(("backup:written-without-failure", f"backup received {obs['log']} although the primary never failed"))
        return bad
    first = fails.index(True)
    if first + 1 <= case["maxlen"]:
        if obs["log"] != list(range(n)):
            kind = "duplicate" if len(obs["log"]) > len(set(obs["log"])) else ("missing" if set(obs["log"]) != set(range(n)) else "order")
            bad.append((f"backup:not-exactly-once-in-order:{kind}", f"primary failed first at #{first} (buffer maxlen {case['maxlen']}): backup received {obs['log']}, expected {list(range(n))}"))
    return bad


# ============================================================================ generators
def _start():
    return ("start", {"uid": "run-1", "time": 1.0, "scan_id": 1, "plan_name": "count", "md": {"sample": {"name": "s1", "tags": ["a", "b"]}}})


def _stop(n):
    return ("stop", {"uid": "stop-1", "time": 9.0, "run_start": "run-1", "exit_status": "success", "reason": "", "num_events": {"primary": n}})


def _dk_int(extra=None):
    d = {"source": "SIM:x", "dtype": "number", "shape": [], "precision": 3}
    d.update(extra or {})
    return d


def _dk_ext(shape):
    return {"source": "file", "dtype": "array", "shape": list(shape), "external": "FILESTORE:"}


def _descriptor(uid, name, int_keys, ext_keys, rng):
    data_keys = {}
    for k in int_keys:
        extra = rng.choice([None, {"dtype_str": "<f8"}, {"dtype_descr": [["a", "<f8"], ["b", "<i4"]]}, {"dtype_numpy": "<i8", "dtype": "integer"}, {"units": "mm", "limits": {"control": {"low": 0, "high": 1}}}])
        data_keys[k] = _dk_int(extra)
    for k in ext_keys:
        data_keys[k] = _dk_ext([1, 4, 5])
    objs = {}
    for k in data_keys:
        objs.setdefault("det" if k in ext_keys else "motor", []).append(k)
    conf = {o: {"data": {f"{o}_c": 1}, "timestamps": {f"{o}_c": 1.0}, "data_keys": {f"{o}_c": _dk_int(rng.choice([None, {"dtype_str": "<i8"}]))}} for o in objs}
    return ("descriptor", {"uid": uid, "name": name, "run_start": "run-1", "time": 1.5, "data_keys": data_keys, "object_keys": objs, "configuration": conf, "hints": {o: {"fields": list(v)} for o, v in objs.items()}})


_SPECS = [("AD_HDF5", "h5"), ("AD_TIFF", "tiff"), ("hdf5", "h5"), ("SOME_UNKNOWN_SPEC", "bin"), ("NPY_SEQ", "npy")]


def gen_legacy(rng, n_events=None, order=None, frames=None, n_ext=None, pages=None, shared_resource=None, patches=None, malformed=None):
    """A legacy run: resource / datum(_page) / event(_page) documents."""
    n = n_events if n_events is not None else rng.choice([1, 2, 3, 4, 6])
    n_ext = n_ext if n_ext is not None else rng.choice([1, 1, 2, 3])
    frames = frames if frames is not None else rng.choice(["none", "none", "single", "multi", "reset", "point_number", "one_per_file"])
    order = order if order is not None else rng.choice(["early", "early", "late", "mixed", "page_early"])
    pages = pages if pages is not None else rng.random() < 0.3
    shared = shared_resource if shared_resource is not None else rng.random() < 0.5
    int_keys = rng.choice([["x"], ["x", "y"], ["x", "time"], ["seq_num", "x"], []])
    ext_keys = [f"img{j}" for j in range(n_ext)]
    two_streams = rng.random() < 0.3
    docs = [_start(), _descriptor("desc-1", "primary", int_keys, ext_keys, rng)]
    # a re-issued descriptor: the same stream continues under a new descriptor uid (what the RunEngine does when a device is
    # reconfigured between readings); seq_nums and frame counters belong to the STREAM, not to the descriptor document
    reissue_at = rng.randrange(1, n) if n >= 2 and rng.random() < 0.3 else None
    desc_of = ["desc-1" if reissue_at is None or i < reissue_at else "desc-1r" for i in range(n)]
    if two_streams:
        docs.append(_descriptor("desc-b", "baseline", ["x"], [], rng))
    res_of = {}
    spec, _ = rng.choice(_SPECS)
    for j, k in enumerate(ext_keys):
        rid = "res-shared" if shared else f"res-{j}"
        res_of[k] = rid
        if rid not in [d[1].get("uid") for d in docs if d[0] == "resource"]:
            kw = rng.choice([{"frame_per_point": 1}, {"path": "/entry/data", "chunk_shape": [1, 4, 5]}, {"dataset": "/a/b", "nested": {"deep": [1, {"er": 2}]}, "to_be_removed": 0}, {"template": "img_{:05d}.tif", "join_method": "stack", "filename": "x"}])
            docs.append(("resource", {"uid": rid, "spec": spec, "root": rng.choice(["/data", "/", "data/"]), "resource_path": rng.choice(["a/b.h5", "/c.h5"]), "resource_kwargs": copy.deepcopy(kw), "path_semantics": "posix", "run_start": "run-1"}))
    events, datum_docs = [], {}
    for i in range(n):
        data = {}
        ts = {}
        filled = {}
        for k in int_keys:
            data[k] = rng.choice([i, i * 1.5, [i, i + 1], "text", None if False else i])
            ts[k] = 2.0 + i
        for j, k in enumerate(ext_keys):
            did = f"{res_of[k]}/{k}/{i}"
            if frames == "none":
                kw = {}
            elif frames == "point_number":
                kw = {"point_number": i, "slc": {"start": i, "stop": i + 1}}
            elif frames == "single":
                kw = {"frame": i}
            elif frames == "multi":
                kw = {"frame": 3 * i + 2, "extra": [1, 2]}
            elif frames == "one_per_file":  # every event writes its own single-frame file: frame 0 each time
                kw = {"frame": 0}
            else:  # reset: a second file restarts the frame numbering
                kw = {"frame": i % 2}
            inline = rng.random() < 0.1
            if inline:
                data[k] = [[0] * 2] * 2
                filled[k] = True
            else:
                data[k] = did
                if rng.random() < 0.7:
                    filled[k] = False
                datum_docs[(i, k)] = ("datum", {"datum_id": did, "resource": res_of[k], "datum_kwargs": kw})
            ts[k] = 2.0 + i
        events.append(("event", {"uid": f"ev-{i}", "time": 2.0 + i, "seq_num": i + 1, "descriptor": desc_of[i], "data": data, "timestamps": ts, "filled": filled}))
    # ordering
    late = set()
    if order == "late":
        late = set(datum_docs)
    elif order == "mixed":
        late = {key for key in datum_docs if rng.random() < 0.5}
    body = []
    for i in range(n):
        if i == reissue_at:
            again = copy.deepcopy(docs[1][1])
            again.update(uid="desc-1r", time=1.9 + i)
            for conf in again["configuration"].values():
                conf["data"] = {c: 2 for c in conf["data"]}
            body.append(("descriptor", again))
        for k in ext_keys:
            if (i, k) in datum_docs and (i, k) not in late:
                body.append(datum_docs[(i, k)])
        body.append(events[i])
        if two_streams and rng.random() < 0.5:
            body.append(("event", {"uid": f"evb-{i}", "time": 2.1 + i, "seq_num": i + 1, "descriptor": "desc-b", "data": {"x": i}, "timestamps": {"x": 2.1}, "filled": {}}))
    tail = [datum_docs[key] for key in sorted(late)]
    if order == "late" and rng.random() < 0.5:
        rng.shuffle(tail)
    if order == "page_early" and datum_docs:
        # all datums of one resource in one datum_page before the events
        body = [b for b in body if b[0] != "datum"]
        by_res = {}
        for key in sorted(datum_docs):
            by_res.setdefault(datum_docs[key][1]["resource"], []).append(datum_docs[key][1])
        pre = []
        for rid, ds in by_res.items():
            keys = sorted({k for d in ds for k in d["datum_kwargs"]})
            if all(set(d["datum_kwargs"]) == set(keys) for d in ds):
                pre.append(("datum_page", {"resource": rid, "datum_id": [d["datum_id"] for d in ds], "datum_kwargs": {k: [d["datum_kwargs"][k] for d in ds] for k in keys}}))
            else:
                pre += [("datum", d) for d in ds]
        body = pre + body
    if pages:
        body = _pack_pages(body)
    docs += body + tail + [_stop(n)]
    case = {"kind": "flow", "style": "legacy", "docs": docs, "order": order, "frames": frames, "reissued": reissue_at is not None}
    if patches if patches is not None else rng.random() < 0.25:
        case["patches"] = {h: "nested" for h in rng.sample(["resource", "datum", "descriptor", "event", "stream_resource"], 2)}
        if rng.random() < 0.5:
            case["patches"]["start"] = "top"
    return case


def _pack_pages(body):
    """merge runs of consecutive events of the same descriptor (same key sets) into event pages"""
    out = []
    run = []

    def flush():
        if len(run) >= 2:
            keys = list(run[0]["data"])
            fkeys = list(run[0].get("filled", {}))
            out.append(("event_page", {"uid": [e["uid"] for e in run], "time": [e["time"] for e in run], "seq_num": [e["seq_num"] for e in run], "descriptor": run[0]["descriptor"],
                                       "data": {k: [e["data"][k] for e in run] for k in keys}, "timestamps": {k: [e["timestamps"][k] for e in run] for k in keys},
                                       "filled": {k: [e["filled"][k] for e in run] for k in fkeys}}))
        else:
            out.extend(("event", e) for e in run)
        run.clear()

    for name, d in body:
        if name == "event" and (not run or (run[0]["descriptor"] == d["descriptor"] and list(run[0]["data"]) == list(d["data"]) and list(run[0].get("filled", {})) == list(d.get("filled", {})))):
            run.append(d)
        else:
            flush()
            if name == "event":
                run.append(d)
            else:
                out.append((name, d))
    flush()
    return out


def gen_current(rng):
    """A current-schema run: stream_resource / stream_datum documents (some in the pre-1.20 layout)."""
    n = rng.choice([1, 2, 3, 5])
    keys = [f"cam{j}" for j in range(rng.choice([1, 2]))]
    docs = [_start(), _descriptor("desc-1", "primary", ["x"], keys, rng)]
    for k in keys:
        old = rng.random() < 0.4
        params = rng.choice([{"dataset": "/entry/data", "chunk_shape": [1, 4, 5]}, {"path": "/old/location", "swmr": True}, {"template": "i_{:05d}.tif", "nested": {"a": [1, 2]}}])
        d = {"uid": f"sr-{k}", "data_key": k, "run_start": "run-1"}
        if old:
            d.update({"spec": rng.choice(["AD_HDF5_SWMR_STREAM", "AD_TIFF"]), "root": "/data", "resource_path": "f.h5", "resource_kwargs": copy.deepcopy(params)})
        else:
            d.update({"mimetype": rng.choice(["application/x-hdf5", "multipart/related;type=image/tiff"]), "uri": "file://localhost/data/f.h5", "parameters": copy.deepcopy(params)})
        docs.append(("stream_resource", d))
    for i in range(n):
        for k in keys:
            docs.append(("stream_datum", {"uid": f"sr-{k}/{i}", "stream_resource": f"sr-{k}", "descriptor": "desc-1", "indices": {"start": i, "stop": i + 1}, "seq_nums": {"start": i + 1, "stop": i + 2}}))
        docs.append(("event", {"uid": f"ev-{i}", "time": 2.0 + i, "seq_num": i + 1, "descriptor": "desc-1", "data": {"x": i}, "timestamps": {"x": 2.0}, "filled": {}}))
    if rng.random() < 0.3:
        docs = docs[:2] + _pack_pages(docs[2:])
    docs.append(_stop(n))
    case = {"kind": "flow", "style": "current", "docs": docs}
    if rng.random() < 0.3:
        case["patches"] = {"stream_resource": "nested", "descriptor": "nested"}
    return case


def gen_malformed(rng):
    case = gen_legacy(rng, order=rng.choice(["early", "late"]), patches=False)
    kind = rng.choice(["missing-datum", "resource-without-spec", "reserved-clash", "datum-referenced-twice", "event-before-descriptor"])
    docs = case["docs"]
    if kind == "missing-datum":
        idx = [i for i, (n, _) in enumerate(docs) if n in ("datum", "datum_page")]
        if idx:
            del docs[rng.choice(idx)]
    elif kind == "resource-without-spec":
        for n, d in docs:
            if n == "resource":
                d.pop("spec")
                break
    elif kind == "reserved-clash":
        for n, d in docs:
            if n == "descriptor":
                d["data_keys"]["time"] = _dk_int()
                d["data_keys"]["_time"] = _dk_int()
                d["object_keys"].setdefault("motor", []).extend(["time", "_time"])
                break
    elif kind == "datum-referenced-twice":
        evs = [d for n, d in docs if n == "event" and d["descriptor"] == "desc-1"]
        if len(evs) >= 2:
            for k, v in evs[0]["data"].items():
                if isinstance(v, str) and v.startswith("res-"):
                    evs[1]["data"][k] = v
    else:
        i = next(i for i, (n, _) in enumerate(docs) if n == "descriptor")
        j = next((j for j, (n, _) in enumerate(docs) if n in ("event", "event_page")), None)
        if j is not None:
            docs.insert(i, docs.pop(j))
    case["malformed"] = kind
    return case


def exhaustive_orderings(n, frames):
    """every interleaving of n events (in seq order) with their n datums, one external key"""
    import itertools

    items = [("E", i) for i in range(n)] + [("D", i) for i in range(n)]
    seen = set()
    for perm in itertools.permutations(items):
        es = [i for t, i in perm if t == "E"]
        if es != sorted(es) or perm in seen:
            continue
        seen.add(perm)
        import random

        rng = random.Random(0)
        docs = [_start(), _descriptor("desc-1", "primary", ["x"], ["img0"], rng),
                ("resource", {"uid": "res-0", "spec": "AD_HDF5", "root": "/data", "resource_path": "a.h5", "resource_kwargs": {"frame_per_point": 1}, "path_semantics": "posix", "run_start": "run-1"})]
        for t, i in perm:
            if t == "D":
                kw = {} if frames == "none" else ({"frame": i} if frames == "single" else ({"frame": 0} if frames == "zero" else {"frame": 2 * i + 1}))
                docs.append(("datum", {"datum_id": f"res-0/{i}", "resource": "res-0", "datum_kwargs": kw}))
            else:
                docs.append(("event", {"uid": f"ev-{i}", "time": 2.0 + i, "seq_num": i + 1, "descriptor": "desc-1", "data": {"x": i, "img0": f"res-0/{i}"}, "timestamps": {"x": 2.0, "img0": 2.0}, "filled": {"img0": False}}))
        docs.append(_stop(n))
        yield {"kind": "flow", "style": "legacy", "docs": docs, "order": "".join(f"{t}{i}" for t, i in perm), "frames": frames}


def gen_backup(rng):
    n = rng.choice([1, 2, 3, 5, 8, 12])
    p = rng.choice([0.0, 0.1, 0.3, 0.6])
    fails = [rng.random() < p for _ in range(n)]
    maxlen = rng.choice([1, 2, 3, n, n + 1, 1000, 1_000_000])
    return {"kind": "backup", "maxlen": maxlen, "fails": fails}


def exhaustive_backup(n):
    import itertools

    for fails in itertools.product([False, True], repeat=n):
        for maxlen in (1, 2, n, n + 3):
            yield {"kind": "backup", "maxlen": maxlen, "fails": list(fails)}


def _cases(ctx):
    corpus = C.VERIF / "corpus" / "C35"
    if corpus.exists():
        for f in sorted(corpus.glob("*.json")):
            c = json.loads(f.read_text())["case"]
            if c.get("kind") == "flow":
                c["docs"] = [tuple(x) for x in c["docs"]]
            yield c
    big = ctx.tier == "thorough" or ctx.deep
    for n in ((1, 2, 3) if big else (1, 2)):
        for fr in ("none", "single", "multi", "zero"):
            yield from exhaustive_orderings(n, fr)
    # failure injected at every position (and every combination) for small runs
    for n in range(1, 7 if big else 5):
        yield from exhaustive_backup(n)
    for _ in range(ctx.budget(700, 5000)):
        r = ctx.rng.random()
        if r < 0.55:
            yield gen_legacy(ctx.rng)
        elif r < 0.75:
            yield gen_current(ctx.rng)
        elif r < 0.87:
            yield gen_malformed(ctx.rng)
        else:
            yield gen_backup(ctx.rng)


def _jsonable_case(case):
    if case.get("kind") == "flow":
        return {**case, "docs": [list(x) for x in case["docs"]]}
    return case


def _flow_requests(case):
    code = _Coder()
    model_docs = to_model_docs(case["docs"], code)
    calls = []
    for name, d in case["docs"]:
        calls.append({"handler": name, "doc": d})
    return code, json.dumps({"kind": "flow", "docs": model_docs}), json.dumps({"kind": "alias", "calls": calls}, default=str)


def _probe_patch_aliasing():
    """Examined, not a violation: start/stop/stream_datum get a SHALLOW copy, so a user patch that edits a nested
    container in place reaches the caller's document (for the deep-copying handlers it cannot)."""
    from bluesky.callbacks.tiled_writer import RunNormalizer

    out = {}
    for name, doc, nested in (
        ("start", {"uid": "u", "time": 0.0, "md": {"a": 1}}, "md"),
        ("stop", {"uid": "s", "time": 1.0, "run_start": "u", "exit_status": "success", "reason": "", "num_events": {"primary": 1}}, "num_events"),
        ("stream_datum", {"uid": "sd", "stream_resource": "sr", "descriptor": "d", "indices": {"start": 0, "stop": 1}, "seq_nums": {"start": 1, "stop": 2}}, "indices"),
        ("datum", {"datum_id": "x/0", "resource": "x", "datum_kwargs": {"a": 1}}, "datum_kwargs"),
    ):
        def patch(d, _k=nested):
            d[_k]["patched"] = 1 if _k != "indices" else 1
            if _k == "indices":
                d[_k].pop("patched")
                d[_k]["stop"] = 2
            return d

        rn = RunNormalizer(patches={name: patch})
        before = copy.deepcopy(doc)
        try:
            rn(name, doc)
        except Exception:  # noqa: BLE001
            pass
        out[name] = "caller's document changed" if _diff(before, doc) else "caller's document intact"
    return out


def run(ctx, model=True):
    res = C.Result(rule="cases = corpus + every interleaving of n<=2 (thorough: 3) events with their datums x {no frame, frame=i, multi-frame} "
                        "+ every primary-failure pattern for runs of <=4 (6) documents x 4 buffer sizes + random legacy (resource/datum/datum_page, "
                        "shared resources, hdf5/tiff/unknown specs, early/late/mixed datum arrival, event pages, user patches) / current "
                        "(stream_resource old+new layout, stream_datum) / malformed streams; non-trivial = a datum arrives after its event, a page, "
                        "a frame kwarg, a patch, an error, or a primary failure")
    reqs, meta = [], []
    res.notes.append({"examined: in-place nested edit by a user patch (assumption A-patch)": _probe_patch_aliasing()})
    res.notes.append("examined: _ConditionalBackup beyond maxlen drops the oldest documents (RunStart first); theorem C35_backup_overflow gives the exact log")
    for case in _cases(ctx):
        jc = _jsonable_case(case)
        if case["kind"] == "backup":
            obs = run_backup_impl(case)
            for sig, what in backup_oracle(case, obs):
                res.violations.append(C.Violation(sig, what, jc))
            first = case["fails"].index(True) if True in case["fails"] else None
            res.seen(jc, first is not None)
            res.count("backup:" + ("no-failure" if first is None else ("below-maxlen" if first + 1 <= case["maxlen"] else "overflow")))
            reqs.append(json.dumps(case))
            meta.append((jc, {"log": obs["log"], "buffer": obs["buffer"], "raised": obs["raised"]}, None))
            continue
        obs = run_flow_impl(case)
        for sig, what in flow_oracle(case, obs):
            res.violations.append(C.Violation(sig, what, jc))
        code, flow_req, alias_req = _flow_requests(case)
        canon = {"outs": _canon_outs(obs["emitted"], code), "err": obs["err"]}
        res.seen(jc, bool(case.get("order") not in (None, "early") or case.get("patches") or obs["err"] or case.get("frames") not in (None, "none") or any(n.endswith("_page") for n, _ in case["docs"])))
        res.count(f"flow:{case.get('style')}")
        res.count(f"order:{case.get('order', '-')}" if len(str(case.get("order"))) < 12 else "order:exhaustive")
        res.count(f"frames:{case.get('frames', '-')}")
        if case.get("reissued"):
            res.count("reissued-descriptor" + (":with-frames" if case.get("frames") not in (None, "none", "point_number") else ""))
        if case.get("malformed"):
            res.count("malformed:" + case["malformed"])
        if obs["err"]:
            res.count("err:" + obs["err"])
        reqs.append(flow_req)
        meta.append((jc, canon, "flow"))
        reqs.append(alias_req)
        meta.append((jc, {"changed": bool(obs["mutated"])}, "alias"))
    if model:
        replies = C.lean_batch(DRIVER, reqs)
        for (jc, obs, kind), rep in zip(meta, replies):
            m = json.loads(rep)
            if kind == "flow":
                for o in m["outs"]:
                    if o["n"] == "event":
                        o["data"] = sorted(o["data"])
                    if o["n"] == "descriptor":
                        o["int"], o["ext"] = sorted(o["int"]), sorted(o["ext"])
                mm = {"outs": m["outs"], "err": m["err"]}
                if mm != obs:
                    res.disagreements.append({"case": jc, "model": mm, "impl": obs})
            elif kind == "alias":
                if bool(m["changed"]) != obs["changed"] or not m["safe"]:
                    res.disagreements.append({"case": jc, "model": m, "impl": obs})
            else:
                if m != obs:
                    res.disagreements.append({"case": jc, "model": m, "impl": obs})
        flows = [i for i, (_, _, k) in enumerate(meta) if k == "flow"]
        for i in (flows[0], flows[len(flows) // 2], flows[-1]) if flows else ():
            res.samples.append({"case": meta[i][0], "impl": meta[i][1], "model": json.loads(replies[i])})
    else:
        res.samples.append({"case": meta[-1][0], "impl": meta[-1][1]})
    return res


def run_impl_only(ctx):
    return run(ctx, model=False)


def replay(ctx, data):
    res = C.Result()
    case = data.get("case")
    if not case:
        return res
    if case.get("kind") == "backup":
        obs = run_backup_impl(case)
        for sig, what in backup_oracle(case, obs):
            res.violations.append(C.Violation(sig, what, case))
        return res
    case = {**case, "docs": [tuple(x) for x in case["docs"]]}
    obs = run_flow_impl(case)
    for sig, what in flow_oracle(case, obs):
        res.violations.append(C.Violation(sig, what, _jsonable_case(case)))
    return res
