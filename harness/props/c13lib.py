"""Shared by C13.py and C12.py: reading an engine observation (harness/engine_impl.py) per plan message.

`analyse(sc, obs)` interleaves the logs with the global tick counter and returns, for every plan message id
(`mid`), its FIRST execution (the one triggered by the plan's own yield; later executions with the same mid are
replays out of the message cache) together with what can be said about that execution's outcome from the device
ledger, the documents and the scenario's device modes -- without consulting the model.
"""
from __future__ import annotations

INTERRUPTIONS = {"FailedPause", "RequestAbort", "RequestStop", "PlanHalt", "GeneratorExit", "CancelledError"}
NONE_CMDS = {"checkpoint", "create", "save", "drop", "null", "sleep", "pause", "clear_checkpoint", "monitor", "unmonitor"}
# exceptions a command may raise by itself for reasons the observation does not show (bundler state, arguments)
CMD_ERRORS = {
    "open_run": {"IllegalMessageSequence"},
    "close_run": {"IllegalMessageSequence"},
    "create": {"IllegalMessageSequence", "ValueError"},
    "read": {"IllegalMessageSequence", "ValueError"},
    "save": {"IllegalMessageSequence", "RuntimeError"},
    "drop": {"IllegalMessageSequence"},
    "checkpoint": {"IllegalMessageSequence", "TransitionError"},
    "monitor": {"IllegalMessageSequence"},
    "unmonitor": {"IllegalMessageSequence"},
    "pause": {"TransitionError"},
    "wait": {"WaitForTimeoutError"},
}
BLOCKING = {"wait", "sleep", "checkpoint", "wait_for"}


def plan_msgs(sc):
    """mid -> msg statement (plan and suspender pre/post plans), and the set of mids that sit in helper plans"""
    out, helper = {}, set()

    def walk(st, is_helper):
        if st is None:
            return
        k = st["k"]
        if k == "msg":
            if "id" in st:
                out[st["id"]] = st
                if is_helper:
                    helper.add(st["id"])
        elif k == "seq":
            for s in st["body"]:
                walk(s, is_helper)
        elif k == "try":
            walk(st["body"], is_helper)
            walk(st.get("handler"), is_helper)
            walk(st.get("fin"), is_helper)

    walk(sc["plan"], False)
    for k in sorted(sc.get("script", {}), key=int):
        for a in sc["script"][k]:
            if a["a"] == "suspend":
                walk(a.get("pre"), True)
                walk(a.get("post"), True)
    return out, helper


def has_raise(st):
    if st is None:
        return False
    k = st["k"]
    if k == "raise":
        return True
    if k == "seq":
        return any(has_raise(s) for s in st["body"])
    if k == "try":
        return has_raise(st["body"]) or has_raise(st.get("handler")) or has_raise(st.get("fin"))
    return False


class Analysis:
    pass


def analyse(sc, o):
    A = Analysis()
    T = o["ticks"]
    A.msgs = [(t, m[0], m[1], m[2], m[3]) for t, m in zip(T["msgs"], o["msgs"])]
    A.yields = [(t, y[0], y[1], y[2]) for t, y in zip(T["yields"], o["yields"])]
    A.docs = list(zip(T["docs"], o["docs"]))
    A.ledger = list(zip(T["ledger"], o["ledger"]))
    A.arrivals = list(zip(T["arrivals"], o["arrivals"]))
    A.returns = list(zip(T["returns"], o["returns"]))
    A.stmts, A.helper_mids = plan_msgs(sc)
    A.devices = sc.get("devices", {})
    script = {int(k): v for k, v in sc.get("script", {}).items()}
    # actions with the tick of the arrival at which they were issued
    A.actions = []
    for i, (t, kind) in enumerate(A.arrivals):
        for a in script.get(i, []):
            A.actions.append((t, kind, a))
    # boundaries of synchronous execution: the next message or the next arrival of _run at a suspension point
    marks = sorted([t for t, *_ in A.msgs] + [t for t, _ in A.arrivals] + [t for t, _ in A.returns])
    A.marks = marks

    def window_end(t, only_msgs=False):
        src = [x[0] for x in A.msgs] if only_msgs else marks
        for m in src:
            if m > t:
                return m
        return float("inf")

    A.window_end = window_end
    # status ids: every non-raising set / trigger call creates one FakeStatus, in ledger order
    A.status_of_ledger = {}
    k = 0
    for t, e in A.ledger:
        if e[1] in ("set", "trigger") and e[2] != "raise":
            A.status_of_ledger[t] = k
            k += 1
    A.n_status = k
    # first execution per mid
    A.first = {}
    A.execs = {}
    for t, cmd, obj, run, mid in A.msgs:
        if mid is None:
            continue
        A.execs.setdefault(mid, []).append(t)
        if mid not in A.first:
            A.first[mid] = (t, cmd, obj, run)
    return A


def mode_at(A, dev, op, tick):
    """scripted mode of the call of `op` on `dev` that happens at ledger tick `tick` (n-th call of that op)"""
    n = sum(1 for t, e in A.ledger if e[0] == dev and e[1] == op and t < tick)
    modes = A.devices.get(dev, {}).get("modes", {}).get(op, [])
    return modes[n] if n < len(modes) else "done"


def expected(A, mid):
    """('value', v) | ('throw', cls) | ('bool',) | ('unknown',) for the FIRST execution of plan message `mid`"""
    t, cmd, obj, run = A.first[mid]
    st = A.stmts.get(mid, {})
    end = A.window_end(t)
    led = [(lt, e) for lt, e in A.ledger if t < lt < end]
    docs = [(dt, d) for dt, d in A.docs if t < dt < end]
    if cmd == "open_run":
        starts = [d for _, d in docs if d["k"] == "start"]
        return ("value", starts[0]["run"]) if len(starts) == 1 else ("throw", "IllegalMessageSequence")
    if cmd == "close_run":
        stops = [d for _, d in docs if d["k"] == "stop"]
        return ("value", stops[0]["run"]) if len(stops) == 1 else ("throw", "IllegalMessageSequence")
    if cmd in ("set", "trigger"):
        mine = [(lt, e) for lt, e in led if e[0] == obj and e[1] == cmd]
        if len(mine) != 1:
            return ("unknown",)
        lt, e = mine[0]
        if e[2] == "raise":
            return ("throw", "DeviceError")
        return ("value", f"status#{A.status_of_ledger[lt]}")
    if cmd == "read":
        kind = A.devices.get(obj, {}).get("kind")
        if kind == "det":
            mine = [e for _, e in led if e[0] == obj and e[1] == "read"]
            if len(mine) != 1:
                return ("unknown",)
            if mine[0][2] == "raise":
                return ("throw", "DeviceError")
            return ("value", {obj: mine[0][2]})
        if kind == "motor":
            pos = 0
            for lt, e in A.ledger:
                if lt < t and e[0] == obj and e[1] == "set" and e[2] != "raise":
                    pos = e[2]
            return ("value", {obj: pos})
        if kind == "sig":
            v = 0
            for at, _, a in A.actions:
                if at < t and a["a"] == "monitor" and a["sig"] == obj:
                    v = a["v"]
            return ("value", {obj: v})
        return ("unknown",)
    if cmd in ("stage", "unstage"):
        mine = [(lt, e) for lt, e in led if e[0] == obj and e[1] == cmd]
        if len(mine) != 1:
            return ("unknown",)
        return ("throw", "DeviceError") if mode_at(A, obj, cmd, mine[0][0]) == "raise" else ("value", "seq")
    if cmd == "wait":
        return ("value", True)
    if cmd in NONE_CMDS:
        return ("value", None)
    if cmd == "rewindable":
        args = st.get("args", [])
        if args and isinstance(args[0], bool):
            return ("value", args[0])
        return ("bool",)
    if cmd == "bogus":
        return ("throw", "InvalidCommand")
    return ("unknown",)


def interrupted_inside(A, mid, upto):
    """requests (pause / suspend / abort / stop / halt) issued at an arrival of _run INSIDE the first execution of
    `mid` (quiesce / sleep / ckpt arrivals between the message and the next message or the resume of its yield)"""
    t = A.first[mid][0]
    end = min(A.window_end(t, only_msgs=True), upto)
    out = []
    for at, kind, a in A.actions:
        if t < at < end and kind in ("quiesce", "sleep", "ckpt") and a["a"] in ("pause", "suspend", "abort", "stop", "halt"):
            if a["a"] == "pause" and a.get("defer"):
                continue
            out.append(a["a"])
    return out


def explained_from_above(A, mid, ty, cls, helper_raises):
    """An exception that kills a plan ABOVE the plan that yielded `mid` (suspender helper plan, rewind plan) is
    stashed by _run and thrown into the next plan down, i.e. at the pending yield of `mid`.  True when `cls` can
    be explained by a message executed between the first execution of `mid` and the resume of its yield."""
    t0 = A.first[mid][0]
    between = [(t, cmd, obj, m) for t, cmd, obj, run, m in A.msgs if t0 < t < ty]
    if not between:
        return False
    if cls == "DeviceError":
        if any(t0 < lt < ty and e[2] == "raise" for lt, e in A.ledger):
            return True
        # stage / unstage log before raising: consult the scripted mode
        for lt, e in A.ledger:
            if t0 < lt < ty and e[1] in ("stage", "unstage") and mode_at(A, e[0], e[1], lt) == "raise":
                return True
        return False
    if cls == "PlanError":
        return helper_raises
    if cls == "InvalidCommand":
        return any(cmd == "bogus" for _, cmd, _, _ in between)
    return any(cls in CMD_ERRORS.get(cmd, ()) for _, cmd, _, _ in between)
