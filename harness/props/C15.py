"""C15 -- Events contain exactly the readings bundled between create and save.

Tie: (T) bundler_extract.py regenerates Bundler/Generated.lean (save's empty-bundle early return and what
it resets, rewind cancelling the bundle, the engine's bundling guards of _checkpoint/_configure and the
no-open-run guards) -- the theorems in Props/C15.lean use these facts; (C) generated message sequences
are run on the REAL RunEngine (real RunBundler) and on the Lean model (guard level: messages; bundler
level: the observed API-call history) and the canonical documents / exceptions / device calls compared.
"""
from __future__ import annotations

import bundler_gen as G
import bundler_props as P
import fault_probes as FP

MANIFEST = {
    "text": "FULL. Theorems over ALL histories of bundler operations after open_run (any devices, any order, malformed "
    "included): an event emitted by save carries exactly the dict-merge of the readings accepted since the create "
    "(C15_event_keys, via a history-only ghost variable and the invariant tying it to _read_cache/_objs_read); what save "
    "emits is descriptors then at most one event whose descriptor document of the same stream with equal data keys was "
    "emitted earlier (C15_descriptor_first, invariant: every cached descriptor was emitted); a read whose device data keys "
    "overlap an object already in the bundle raises ValueError, emits nothing, leaves the bundle (C15_collision_rejected); "
    "for every engine state with an open bundle checkpoint/configure raise IllegalMessageSequence without touching bundler "
    "or device (C15_checkpoint_configure_rejected), create/save/drop without a run are rejected (C15_no_run_rejected); drop "
    "and save-with-no-readings emit nothing and leave both counter dicts unchanged (C15_drop_or_empty_save_silent[_history]).",
    "note": "Trusted: Lean kernel; bundler_extract.py; the hand-written Lean transcription of RunBundler + event_model's key-set "
    "validation, tied on every run by the correspondence check (documents, exceptions, device calls, issued bundler calls). "
    "Devices' describe() constant; Resource/Datum documents inside read/save not modelled.",
    "technique": "Lean 4 proof (invariants over arbitrary operation histories) + translator for syntactic facts + correspondence run against the real RunEngine/RunBundler",
}
LEAN_MODULES = ["BlueskyVerif.Props.C15"]
DRIVER_MODULES = P.DRIVER_MODULES
DRIVER = "Drivers/C15.lean"
ASSUMPTIONS = P.ASSUMPTIONS
TRUSTED = P.TRUSTED
RULE = "cases = corpus + exhaustive bundles (<=2 reads over overlapping/disjoint devices x save/drop x one intruder message at every position) + random structured sequences (bundles, configure, monitors, pauses, malformed orders); non-trivial = some message raised, or the sequence contains pause/resume/configure/monitor update/collect"

extract = P.extract


def run(ctx, model=True):
    res = P.run(ctx, "C15", "C15", 900, 20000, exhaustive=(G.exhaustive_small,), model=model, rule=RULE)
    # the bundler histories have one run; a checkpoint addressed to ANOTHER run while this one is bundling is probed on the engine
    FP.run_probes(ctx, res, [FP.checkpoint_rejected], ["cross-run-checkpoint"], 9, 60)
    return res


def run_impl_only(ctx):
    return run(ctx, model=False)


def replay(ctx, data):
    if FP.is_probe(data):
        return FP.replay_probe(ctx, data, [FP.checkpoint_rejected])
    return P.replay(ctx, "C15", data)
