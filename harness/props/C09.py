"""C09 -- a deferred pause takes effect exactly at the next checkpoint."""
from __future__ import annotations

import collections

import common as C
import re_probes as RP
import fault_probes as FP
import engine_common as E
import engine_extract
import replay_common as R

MANIFEST = {
    "text": "PARTIAL (forced hypothesis: a message cache exists, i.e. no clear_checkpoint earlier in the call -- after "
    "clear_checkpoint the real _checkpoint does not re-create the cache and the deferred pause at the next checkpoint becomes a "
    "FailedPause, see C10 and Counterexamples/C09.lean). Lean (Props/C09.lean over the shared engine model): a deferred request "
    "changes nothing but the flag; cmdCheckpoint with the flag set resets the cache and suspends in the 0.5 s sleep; resuming "
    "from that sleep requests the pause (state pausing, cancellation pending, flag cleared) and reaches the loop-top sleep "
    "WITHOUT processing a message; the next step delivers the cancellation, clears the run permit and pauses (pc = pausedWait, "
    "state paused, blocking event set), again without processing a message; resume() then pushes an EMPTY rewind plan "
    "(C09_deferred_pause_at_checkpoint chains these for every state); C09_stays_pending: no block of _run, no command other "
    "than `pause`, no request other than request_pause touches the flag, cleanup keeps it, only the next RE(plan) clears it. "
    "Python: for every accepted deferred request on the REAL engine the next checkpoint must be followed by 'paused' with no "
    "message in between, the resume must replay nothing, and without a checkpoint the call must end un-interrupted with "
    "deferred_pause_requested still True.",
    "note": "Trusted: Lean kernel; engine_extract.py; the hand-written _run machine, tied by the differential run. Requests that "
    "collide with other scripted requests (abort/stop/halt/suspend at the arrivals between the checkpoint and the pause) are "
    "compared model-vs-implementation but not judged by the oracle.",
    "technique": "Lean 4 proof over a program-counter model of RunEngine._run + differential runs against the real RunEngine + oracle on the interleaved msg/state logs",
}
LEAN_MODULES = ["BlueskyVerif.Props.C09"]
DRIVER_MODULES = E.DRIVER_MODULES
DRIVER = E.DRIVER
ASSUMPTIONS = [
    "requests from other threads act atomically while _run is suspended at an await",
    "synchronous fake devices; statuses complete only when the script says so",
    "no clear_checkpoint before the deferred pause's checkpoint (PARTIAL: see MANIFEST)",
]

STATS = collections.Counter()
BENIGN = ("status", "monitor", "release")


def extract(ctx):
    return engine_extract.extract()


def oracle(sc, o):
    bad = []
    idx, _ = R.index_plan(sc)
    script = {int(k): v for k, v in sc.get("script", {}).items()}
    tr = R.ReplayTracker(sc, o).run()
    ev = R.events(o, ("msgs", "trans", "arrivals", "returns"))
    state = "idle"
    pending = None      # the deferred request under observation: {"stage": armed|await-pause|paused|resumed, ...}
    cleared = False     # a clear_checkpoint was executed in this call
    disturbed = False   # another interruption request was issued in this call (outcomes are then not judged)

    def arm(src):
        nonlocal pending
        if pending is None:
            pending = {"stage": "armed", "src": src}
            STATS["deferred-request:" + src.split("@")[0].split("#")[0]] += 1

    for n, (tick, key, i, e) in enumerate(ev):
        if key == "trans":
            a, b = e
            state = b
            if pending:
                if b == "paused":
                    if pending["stage"] == "await-pause":
                        pending["stage"] = "paused"
                    elif pending["stage"] == "armed":
                        bad.append(("deferred-pause-too-early", f"deferred pause ({pending['src']}) paused the engine before any checkpoint was processed"))
                        return bad
                elif a == "paused" and b == "running" and pending["stage"] == "paused":
                    pending["stage"] = "resumed"
                elif a == "paused" and pending["stage"] == "paused":
                    pending = None   # abort / stop / halt from the pause: nothing more to check
                elif b in ("aborting", "stopping", "halting", "suspending") and pending["stage"] in ("armed", "await-pause"):
                    STATS["not-judged:other-interruption"] += 1
                    pending = None
        elif key == "arrivals":
            acts = script.get(i, [])
            strong = [a for a in acts if a["a"] not in BENIGN]
            if len(strong) > 1:
                STATS["not-judged:several-requests-at-one-arrival"] += 1
                return bad
            for a in strong:
                if a["a"] == "pause" and a.get("defer"):
                    if state == "running" and e == "ckpt":
                        # the engine sits in the grace sleep of a checkpoint: an earlier deferred request is still pending
                        # (e.g. one that a suspension overtook) and fires at THIS checkpoint; the new request adds nothing
                        STATS["not-judged:deferred-request-during-a-grace-sleep"] += 1
                    elif state == "running":
                        arm(f"action@{i}")
                elif a["a"] == "pause":
                    if state == "running":
                        # an immediate pause cancels a deferred one
                        pending = None
                else:
                    disturbed = True
                    if pending and pending["stage"] in ("armed", "await-pause"):
                        STATS["not-judged:other-interruption"] += 1
                        pending = None
        elif key == "msgs":
            cmd, obj, run, mid = e
            if pending and pending["stage"] == "await-pause":
                bad.append((f"deferred-pause-late:{cmd}", f"after the checkpoint (position {pending['ck']}) that ends the deferred pause ({pending['src']}) the engine executed {cmd!r} (msg #{mid}, position {i}) before pausing"))
                return bad
            if pending and pending["stage"] == "resumed":
                if tr.bad_at == i:
                    bad.append((f"deferred-pause-resume-replays:{cmd}", f"resuming from the pause at the checkpoint replays {cmd!r} (msg #{mid}, position {i}): " + tr.bad[0][1]))
                    return bad
                STATS["judged:resume-replays-nothing"] += 1
                pending = None
            if cmd == "clear_checkpoint":
                cleared = True
            elif cmd == "pause" and mid is not None and state == "running":
                st = idx.get(mid, (None, None))[0]
                if st is None:
                    return bad
                defer = bool(st.get("kw", {}).get("defer", st.get("args", [False])[0] if st.get("args") else False))
                if defer:
                    arm(f"message#{mid}")
                else:
                    pending = None
            elif cmd == "checkpoint" and pending and pending["stage"] == "armed":
                # the deferred branch of _checkpoint announces itself by the 0.5 s sleep ('ckpt' arrival)
                nxt = next(((k2, e2) for (_, k2, _, e2) in ev[n + 1:] if k2 in ("arrivals", "msgs", "returns")), None)
                if nxt is not None and nxt[0] == "arrivals" and nxt[1] == "ckpt":
                    if cleared:
                        # recorded finding: a checkpoint after clear_checkpoint does not restore resumability, the
                        # deferred pause becomes a FailedPause and the plan is aborted instead of paused
                        STATS["known:deferred-after-clear_checkpoint"] += 1
                        bad.append(("deferred-pause-at-checkpoint-after-clear_checkpoint:aborts", f"deferred pause ({pending['src']}) reached the checkpoint (msg #{mid}) after an earlier clear_checkpoint: the engine does not pause there (FailedPause, plan aborted)"))
                        pending = None
                    else:
                        pending.update(stage="await-pause", ck=i)
                else:
                    ok = tr.outcome(mid, tick) if mid is not None and o["msgs"][:i].count(e) == 0 else None
                    if ok is True:
                        bad.append(("deferred-pause-ignored-at-checkpoint", f"deferred pause ({pending['src']}) pending, checkpoint (msg #{mid}, position {i}) succeeded but the engine did not pause there"))
                        return bad
                    if ok is None:
                        STATS["not-judged:checkpoint-outcome-unknown"] += 1
                        pending = None
                    # ok is False: the checkpoint raised (inside a bundle): not a checkpoint, the request stays pending
        elif key == "returns":
            op, result, st_, interrupted, deferred, open_runs = e[:6]
            if pending:
                if pending["stage"] == "armed":
                    # no checkpoint followed: the request stays reported as pending; the call is not an interrupted one
                    if not deferred:
                        bad.append(("deferred-flag-lost", f"deferred pause ({pending['src']}) found no checkpoint, {op} ended ({result}) but deferred_pause_requested is False"))
                        return bad
                    if not disturbed and (interrupted or result == "raise:RunEngineInterrupted" or st_ == "paused"):
                        bad.append(("deferred-pause-interrupts-without-checkpoint", f"deferred pause ({pending['src']}) found no checkpoint but {op} ended with {result}, state {st_}, interrupted={interrupted}"))
                        return bad
                    STATS["judged:no-checkpoint-stays-pending"] += 1
                    pending = None
                elif pending["stage"] == "await-pause":
                    bad.append(("deferred-pause-no-pause-at-checkpoint", f"deferred pause ({pending['src']}): the checkpoint at position {pending['ck']} was processed but {op} ended with {result} in state {st_} without pausing"))
                    return bad
                elif pending["stage"] == "paused":
                    if st_ != "paused" or result != "raise:RunEngineInterrupted":
                        bad.append(("deferred-pause-not-reported", f"paused at the checkpoint but {op} ended with {result} in state {st_}"))
                        return bad
                    STATS["judged:paused-at-checkpoint"] += 1
                elif pending["stage"] == "resumed":
                    STATS["judged:resume-replays-nothing"] += 1
                    pending = None
            disturbed = False   # a new blocking call (resume / abort ...) starts after this one returned
    return bad


_GEN = R.ReplayGen(clear_p=0.04, kinds=("defer", "defer", "defer", "pause", "suspend"), sweep_kinds=("defer",))


def gen(rng):
    if rng.random() < 0.85:
        return _GEN(rng)
    sc = E.gen_scenario(rng, dense=rng.random() < 0.5)
    sc["decisions"] = list(sc["decisions"]) + ["halt"]   # bounds the harness loop should resume() itself fail
    return sc


def run(ctx, model=True):
    STATS.clear()
    _GEN.sweep_cap = 40 if (ctx.tier == "thorough" or ctx.deep) else 10
    res = E.run_property(ctx, "C09", oracle, gen=gen, quick=160, thorough=4000, model=model)
    for k, v in STATS.items():
        res.count(k, v)
    RP.add_to(res, ["stale-deferred-pause"])
    FP.run_probes(ctx, res, [FP.resume_replays_nothing], ["grace-sleep-pause"], 6, 60)
    res.rule += " | C09: checkpoints at varying spacing (some plans almost without), deferred pause requested at EVERY arrival index (sweeps) or by a pause(defer=True) message, mixed with immediate pauses / suspensions / aborts; judged = the request met a checkpoint (paused there, nothing executed in between, resume replays nothing) or met none (flag stays set, call not interrupted)"
    return res


def run_impl_only(ctx):
    return run(ctx, model=False)


def replay(ctx, data):
    r = RP.replay(data)
    if r is not None:
        return r
    if FP.is_probe(data):
        return FP.replay_probe(ctx, data, [FP.resume_replays_nothing])
    return E.replay_property(ctx, data, oracle)
