"""C20 -- message mutators are transparent when they change nothing.

Tie: (T) harness/genextract.py re-reads plan_mutator / msg_mutator from the current
preprocessors.py: the `except` clause lists of their try statements are regenerated into
lean/BlueskyVerif/Gen/Generated.lean (the Lean models dispatch on them, the theorems depend on
them) and every statement of the two functions is compared with the transcribed shape.
(C) plans from the AST grammar of harness/plangen.py are compiled to real generators, wrapped by the
REAL bluesky.preprocessors.plan_mutator / msg_mutator (processor changing nothing) and driven by
scripts; the same AST is interpreted by the Lean model (Gen/Ast.lean + Gen/Mutators.lean); traces
are compared.  The oracle (wrapped trace == bare trace on the property's domain) is evaluated on the
implementation's traces.
"""
from __future__ import annotations

import json
from concurrent.futures import ThreadPoolExecutor

import common as C
import genextract
import plangen as G

MANIFEST = {
    "text": "FULL. Theorems (Props/C20.lean) for ANY wrapped generator behaviour (finite or not, well-behaved or not) and "
    "ANY script of send/throw of any length optionally ended by close(): run(msg_mutator(p, identity)) = run(p) and "
    "run(plan_mutator(p, (None,None))) = run(p) -- same messages in order, same responses/exceptions delivered, same "
    "exceptions raised, same return value, same close() result; by a simulation between the wrapper's transcribed state "
    "machine (one Lean step per loop iteration, dispatching on except-clause tables extracted from the source) and the "
    "wrapped generator.  Domain stated in the theorems: thrown exceptions are not GeneratorExit (msg_mutator) / are "
    "Exception subclasses incl. RequestStop/RequestAbort (plan_mutator).  Side theorems say exactly what happens outside: "
    "C20_genexit_contract (throw(GeneratorExit): the wrapper close()s the plan and raises), C20_genexit_transparent_* "
    "(transparent for plans that let GeneratorExit through), C20_plan_mutator_base_exception (non-Exception "
    "BaseExceptions are not forwarded by plan_mutator).",
    "note": "Trusted: Lean kernel; the generator protocol of CPython 3.12 as modelled in Gen/Basic.lean (Pos.resume/close) "
    "and PEP 380 in Gen/YieldFrom.lean -- validated on every run by interpreting each plan AST in Lean and comparing with "
    "the real generator compiled from the same AST; harness/genextract.py + plangen.py.  msg_proc is a pure function; "
    "messages are Msg objects.",
    "technique": "Lean 4 proof (simulation, induction on the script) over a transcribed state machine parametrised by "
    "source-extracted except-clause tables + exhaustive/random correspondence run against the real wrappers",
}
LEAN_MODULES = ["BlueskyVerif.Props.C20"]
DRIVER_MODULES = ["BlueskyVerif.Gen.Driver", "BlueskyVerif.Gen.Mutators"]
DRIVER = "Drivers/C20.lean"
ASSUMPTIONS = [
    "the processor is a pure function that returns its argument (msg_mutator) / (None, None) (plan_mutator) and never raises",
    "messages are Msg objects (a plan yielding None to msg_mutator is outside the protocol)",
    "exceptions thrown by the caller: not GeneratorExit for msg_mutator; Exception subclasses for plan_mutator "
    "(GeneratorExit and other BaseExceptions: see C20_genexit_contract / C20_plan_mutator_base_exception)",
    "StopIteration is never thrown into a plan (PEP 479 domain); generator ids are not reused",
]
TRUSTED = ["harness/genextract.py (clause tables + statement-shape comparison)", "harness/plangen.py (AST -> Python source; trace canonicalisation)"]

WRAPPERS = ["bare", "msg_mutator", "plan_mutator"]


def extract(ctx):
    return genextract.extract_mutators_file(ctx)


# ----------------------------------------------------------------------------- implementation side


def wrap(wrapper, gen):
    from bluesky.preprocessors import msg_mutator, plan_mutator

    if wrapper == "bare":
        return gen
    if wrapper == "msg_mutator":
        return msg_mutator(gen, lambda msg: msg)
    if wrapper == "plan_mutator":
        return plan_mutator(gen, lambda msg: (None, None))
    raise ValueError(wrapper)


def run_impl(plan, scripts):
    """traces[wrapper][script index] on the real code"""
    out = {}
    for w in WRAPPERS:
        rows = []
        for s in scripts:
            f = G.make_genfunc(plan, G.Shared())
            rows.append(G.drive(wrap(w, f()), s))
        out[w] = rows
    return json.loads(json.dumps(out))


# ----------------------------------------------------------------------------- oracle


def _kind(cmd):
    if cmd[0] == "send":
        return "send"
    if cmd[0] == "close":
        return "close"
    cls = cmd[1]
    if cls in G.CONTROL_CLASSES:
        return "throw-control"
    if cls in G.EXCEPTION_CLASSES:
        return "throw-exception"
    if cls == "GeneratorExit" and cmd[2] == 0:
        return "throw-genexit"
    if cls in G.GENEXIT_CLASSES:
        return "throw-genexit-other"
    return "throw-baseexc"


def expected(wrapper, cmd, bare_obs):
    """(expected observation of the wrapped plan | None = not determined by the bare trace,
    keep comparing afterwards?) -- the property on its domain, the stated contract outside."""
    k = _kind(cmd)
    if k in ("send", "throw-exception", "throw-control"):
        return bare_obs, True
    if k == "close":
        # same result; if the bare plan ignored GeneratorExit it is still alive while the wrapper is not
        return bare_obs, bare_obs != ["raise", "RuntimeError", G.TAG_CLOSE_IGNORED]
    if k == "throw-genexit":
        # C20_genexit_contract: the wrapper close()s the plan, then raises
        if bare_obs[0] == "yld":
            return ["raise", "RuntimeError", G.TAG_CLOSE_IGNORED], False
        if bare_obs[0] == "ret" or bare_obs[1] in G.GENEXIT_CLASSES:
            return ["raise", cmd[1], cmd[2]], True
        return bare_obs, True
    if k == "throw-genexit-other":
        return None, False
    # throw-baseexc
    if wrapper == "msg_mutator":
        return bare_obs, True
    return ["raise", cmd[1], cmd[2]], bare_obs[0] != "yld"  # C20_plan_mutator_base_exception


def oracle(wrapper, script, bare, wrapped):
    """None if the property holds on this trace, else (index, kind, expected, got)"""
    for i, cmd in enumerate(script):
        exp, cont = expected(wrapper, cmd, bare[i])
        if exp is not None and wrapped[i] != exp:
            return i, _kind(cmd), exp, wrapped[i]
        if not cont:
            return None
    return None


# ----------------------------------------------------------------------------- cases


def _groups(ctx):
    """list of (label, plan, scripts)"""
    rng = ctx.rng
    out = []
    for path in sorted((C.VERIF / "corpus" / "C20").glob("*.json")):
        d = json.loads(path.read_text())
        out.append(("corpus", d["plan"], [d["script"]]))
    deep = ctx.tier == "thorough" or ctx.deep
    n_ex = 4 if deep else 3
    scripts4 = list(G.enum_scripts(4))
    for p in G.enum_plans(n_ex):
        out.append(("exhaustive", p, scripts4))
    scripts5 = list(G.enum_scripts(5))
    nxt = [G.renumber(s) for s in G.enum_stmts(n_ex + 1)]
    k = ctx.budget(4000, 12000)
    if len(nxt) > k:
        nxt = rng.sample(nxt, k)
    for p in nxt:
        out.append(("sampled-scripts", p, rng.sample(scripts5, 4)))
    if deep:
        for p in G.enum_plans(3):
            out.append(("exhaustive-len5", p, scripts5))
    for _ in range(ctx.budget(900, 12000)):
        p = G.rand_plan(rng, rng.randrange(4, 16))
        out.append(("random", p, [G.rand_script(rng, rng.randrange(2, 10)) for _ in range(6)]))
    return out


def _lean(groups):
    reqs = [json.dumps({"plan": p, "scripts": ss, "wrappers": WRAPPERS}) for _, p, ss in groups]
    chunk = max(1, (len(reqs) + 3) // 4)
    parts = [reqs[i : i + chunk] for i in range(0, len(reqs), chunk)]
    with ThreadPoolExecutor(max_workers=4) as ex:
        outs = list(ex.map(lambda part: C.lean_batch(DRIVER, part), parts))
    return [json.loads(line) for part in outs for line in part]


def _nontrivial(feats, script):
    return bool(feats & {"try", "yield-from"}) or any(c[0] != "send" for c in script)


def run(ctx, model=True):
    G.quiet_unraisable()
    res = C.Result()
    res.rule = (
        "plans: corpus; EVERY plan AST of the grammar (r=yield, raise, return r, bare raise in handlers, seq, if r==7, "
        "yield from sub(), try/except{Exception,GeneratorExit,BaseException}/else/finally with yields anywhere) with <=3 "
        "(quick) / <=4 (thorough) nodes x EVERY script of length 4 over {next, send 7, throw E1, throw GeneratorExit, close; "
        "also send 7 / throw / close on the fresh generator}; all plans one node larger x 4 random length-5 scripts; random "
        "plans of 4-15 nodes (loops, shared Msg objects, 8 raisable classes) x random scripts of length 2-9 over sends and "
        "throws of E1,E2,RequestStop,RequestAbort,GeneratorExit,PlanHalt,BaseExc and close, 10% starting with a protocol "
        "misuse.  Each (plan, script) is run bare, under the real msg_mutator(identity) and plan_mutator((None,None)) and "
        "in the Lean model.  Non-trivial: the plan has try or yield-from, or the script throws or closes."
    )
    groups = _groups(ctx)
    impl = [run_impl(p, ss) for _, p, ss in groups]
    lean = _lean(groups) if model else None
    for gi, (label, plan, scripts) in enumerate(groups):
        feats = G.features(plan)
        res.count("plans:" + label)
        for f in feats:
            res.count("feature:" + f)
        if lean is not None and "traces" not in lean[gi]:
            res.disagreements.append({"plan": plan, "model_error": lean[gi]})
            continue
        for si, s in enumerate(scripts):
            case = {"plan": plan, "script": s}
            res.seen(case, _nontrivial(feats, s))
            res.count("scripts:" + label)
            for c in s:
                res.count("cmd:" + _kind(c))
            bare = impl[gi]["bare"][si]
            for wi, w in enumerate(WRAPPERS):
                got = impl[gi][w][si]
                if w != "bare":
                    bad = oracle(w, s, bare, got)
                    if bad is not None:
                        i, kind, exp, obs = bad
                        res.violations.append(
                            C.Violation(
                                f"{w}-not-transparent-on-{kind}",
                                f"{w} with a do-nothing processor differs from the bare plan at step {i} ({s[i]}): expected {exp}, got {obs}",
                                {"wrapper": w, "plan": plan, "script": s[: i + 1], "bare": bare[: i + 1], "wrapped": got[: i + 1], "source": G.source(plan)},
                            )
                        )
                if lean is not None:
                    m = lean[gi]["traces"][wi][si]
                    if m != got:
                        res.disagreements.append({"wrapper": w, "plan": plan, "script": s, "model": m, "impl": got})
            if len(res.samples) < 3 and label == "random" and _nontrivial(feats, s) and lean is not None:
                res.samples.append({"plan": plan, "script": s, "impl": {w: impl[gi][w][si] for w in WRAPPERS}, "model": {w: lean[gi]["traces"][wi][si] for wi, w in enumerate(WRAPPERS)}})
    res.exhaustive = True
    return res


def run_impl_only(ctx):
    return run(ctx, model=False)


def replay(ctx, data):
    G.quiet_unraisable()
    res = C.Result()
    case = data["case"]
    if "plan" not in case:
        return res
    impl = run_impl(case["plan"], [case["script"]])
    for w in ([case["wrapper"]] if case.get("wrapper") in WRAPPERS[1:] else WRAPPERS[1:]):
        bad = oracle(w, case["script"], impl["bare"][0], impl[w][0])
        if bad is not None:
            i, kind, exp, obs = bad
            res.violations.append(C.Violation(f"{w}-not-transparent-on-{kind}", f"{w} differs from the bare plan at step {i}: expected {exp}, got {obs}; bare trace {impl['bare'][0]}, wrapped trace {impl[w][0]}", case))
    return res
