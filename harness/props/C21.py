"""C21 -- plan_mutator inserts head/tail messages exactly as documented.

Tie: (T) the same extraction as C20 (harness/genextract.py -> Gen/Generated.lean + statement-shape
comparison of plan_mutator).  (C) host / head / tail plans from the AST grammar are compiled to real
generators; a processor given by rules "payload k -> (head, tail)" is passed to the REAL
bluesky.preprocessors.plan_mutator; the same ASTs and rules go through the Lean model
(Gen/Mutators.lean, the very machine C20 proves things about); traces are compared.  The oracle
states the property on the implementation's instrumented run: what the host receives after an
insertion, the order of inserted messages, where exceptions from head/tail go, and which message
objects the processor was applied to.
"""
from __future__ import annotations

import itertools
import json
from concurrent.futures import ThreadPoolExecutor

import common as C
import genextract
import plangen as G

MANIFEST = {
    "text": "PARTIAL. Theorems (Props/C21.lean) about the transcribed plan_mutator state machine for ARBITRARY host / head / "
    "tail generator behaviours, arbitrary stack depth below the host and arbitrary interaction length (fuel-monotone: "
    "C21_path_adequate turns every statement into one about the fuel-indexed machine given fuel > 3): after an insertion "
    "the wrapper emits exactly head's messages then tail's messages, feeds each response to the plan that asked, and the "
    "host is then resumed at its original yield with the response to head's last message (None if head yielded nothing) "
    "-- C21_head_response, C21_tail_after_head_swallowed; an Exception raised by head or tail (on send or on a thrown-in "
    "exception) is thrown into the host at its original yield -- C21_exceptions_to_host; a message object that has gone "
    "through the processor is never processed again however often it is re-yielded (single_gen(msg), pchain(..., "
    "single_gen(msg))) -- C21_original_not_reprocessed.  GAP (genuine, finding F9): `inserted messages are not themselves "
    "re-processed` holds only for re-yielded ORIGINAL objects; msgs_seen is keyed by id(msg), so every FRESH message "
    "yielded by a head or tail plan is passed to msg_proc (and its answer honoured: nested insertion).  C21_full states the "
    "full claim; Counterexamples/C21.lean refutes it on the model; the head/tail theorems carry the hypothesis `Quiet` (the "
    "processor leaves the inserted messages alone) which the full statement would not need.",
    "note": "Trusted: Lean kernel; generator protocol model (validated by the AST correspondence); harness/genextract.py, "
    "plangen.py.  msg_proc is a function of the message and of the messages it was called with before; generator ids "
    "are unique in the model.  CPython reuses id() of collected generators and plan_mutator's caches are keyed by id(): a "
    "stale tail_cache entry of a head killed by a thrown exception made its tail run after a later insertion -- found by "
    "this check, repaired in /repo (throw branch now pops both caches), guarded by the implementation-only probe "
    "`stale_tail` (run on every check, sig stale-tail-of-killed-head-runs-after-later-insertion) and its sibling `stale_result` "
    "(the saved head response of a killed tail, sig stale-head-response-of-killed-tail-given-to-later-head).",
    "technique": "Lean 4 proof (execution paths of the transcribed loop, induction over the interaction; fresh-id invariant; "
    "fuel adequacy) + exhaustive/random correspondence run against the real plan_mutator with inserting processors",
}
LEAN_MODULES = ["BlueskyVerif.Props.C21"]
DRIVER_MODULES = ["BlueskyVerif.Gen.Driver", "BlueskyVerif.Gen.Mutators"]
DRIVER = "Drivers/C21.lean"
ASSUMPTIONS = [
    "msg_proc does not raise and returns fresh, unstarted generators; it may depend on the messages it was called with before",
    "head/tail theorems: the processor answers (None, None) for the messages the inserted plans yield (or they are re-yielded seen objects) -- hypothesis `Quiet`, forced by finding F9",
    "ids of generator objects are never reused (the harness keeps every generator alive for the duration of a case)",
    "exceptions reaching plan_mutator's handlers are Exception subclasses (others leave the wrapper, see C20_plan_mutator_base_exception)",
]
TRUSTED = ["harness/genextract.py", "harness/plangen.py"]

HEAD0, TAIL0 = 100, 200  # payload ranges that identify messages created by inserted plans


def extract(ctx):
    return genextract.extract_mutators_file(ctx)


# ----------------------------------------------------------------------------- implementation side


def spy(name, gen, log):
    """pass-through generator (same message OBJECTS go through) recording what `gen` yields and gets"""
    log.append([name, "start"])
    cmd = ("send", None)
    while True:
        try:
            m = gen.send(cmd[1]) if cmd[0] == "send" else gen.throw(cmd[1])
        except StopIteration as e:
            log.append([name, "end", "ret", e.value])
            return e.value
        except BaseException as e:  # noqa: BLE001
            c = G.canon_exc(e)
            log.append([name, "end", "exc", c[1], c[2]])
            raise
        log.append([name, "yield", G.canon_msg(m)[1]])
        try:
            r = yield m
        except GeneratorExit:
            log.append([name, "closed"])
            gen.close()
            raise
        except BaseException as e:  # noqa: BLE001
            c = G.canon_exc(e)
            log.append([name, "throw", c[1], c[2]])
            cmd = ("throw", e)
        else:
            log.append([name, "send", r])
            cmd = ("send", r)


def run_one(case, script, instrument):
    """real plan_mutator around real generators; returns (trace, log)"""
    from bluesky.preprocessors import plan_mutator

    shared = G.Shared()
    keep = []  # every generator stays alive: no id() reuse
    log = []
    funcs = case["_funcs"]
    rules = case["rules"]
    n_calls = [0]
    processed = {}  # id(msg) -> msg (the reference keeps the id from being reused)

    def proc(msg):
        n = n_calls[0]
        n_calls[0] += 1
        payload = G.canon_msg(msg)[1]
        log.append(["proc", payload, n])
        if id(msg) in processed:
            log.append(["reproc", payload, n])   # never happens on a correct plan_mutator
        processed[id(msg)] = msg
        for i, rule in enumerate(rules):
            if rule["payload"] == payload:
                out = []
                for part in ("head", "tail"):
                    f = funcs[(i, part)]
                    if f is None:
                        out.append(None)
                    else:
                        g = f(shared)()
                        if instrument:
                            g = spy(f"{part}{n}", g, log)
                        keep.append(g)
                        out.append(g)
                return tuple(out)
        return (None, None)

    host = funcs["host"](shared)()
    if instrument:
        host = spy("host", host, log)
    keep.append(host)
    wrapped = plan_mutator(host, proc)
    keep.append(wrapped)
    trace = G.drive(wrapped, script)
    snap = [list(e) for e in log]
    return trace, snap, keep


def compile_case(case):
    def mk(ast, name):
        src = G.source(ast, name)

        def with_shared(shared):
            from bluesky.utils import RunEngineControlException

            ns = {"Msg": G.Msg, "SHARED": shared, "RunEngineControlException": RunEngineControlException}
            ns.update(G.EXC)
            exec(code, ns)
            return ns[name]

        code = compile(src, f"<plangen:{name}>", "exec")
        return with_shared

    funcs = {"host": mk(case["host"], "host")}
    for i, rule in enumerate(case["rules"]):
        for part in ("head", "tail"):
            funcs[(i, part)] = mk(rule[part], f"{part}_{i}") if rule[part] is not None else None
    case["_funcs"] = funcs


def run_impl(case):
    compile_case(case)
    out = {"trace": [], "itrace": [], "log": []}
    for s in case["scripts"]:
        t, _, keep = run_one(case, s, False)
        out["trace"].append(t)
        del keep
        t2, log, keep = run_one(case, s, True)
        out["itrace"].append(t2)
        out["log"].append(log)
        del keep
    case.pop("_funcs")
    return json.loads(json.dumps(out))


# ----------------------------------------------------------------------------- oracle


def _origin(payload):
    if isinstance(payload, int) and payload >= TAIL0:
        return "tail"
    if isinstance(payload, int) and payload >= HEAD0:
        return "head"
    return "host"


def oracle(case, script, trace, log):
    """the statement of C21 on what actually happened; returns [(sig, text)]"""
    bad = []
    # (c0) a message OBJECT that has gone through the processor is never processed again, however often it is re-yielded
    for ev in log:
        if ev[0] == "reproc":
            bad.append(("original-message-object-processed-again", f"msg_proc was called a second time (call #{ev[2]}) with the SAME message object (payload {ev[1]}) it had already processed"))
            return bad
    # (c1) an inserted head is STARTED (sent None) in the same step in which the processor returned it: nothing the driver
    #      does comes in between, so every processor call that produced a head shows that head's start in the log
    started = {ev[0] for ev in log if len(ev) >= 2 and ev[1] == "start"}
    for ev in log:
        if ev[0] == "proc":
            rule = next((r for r in case["rules"] if r["payload"] == ev[1]), None)
            if rule is not None and rule["head"] is not None and f"head{ev[2]}" not in started:
                bad.append(("inserted-head-never-started", f"msg_proc call #{ev[2]} (payload {ev[1]}) returned a head plan that was never started: something other than None was delivered to it first (a stale exception?)"))
                return bad
    # (c) inserted messages are not themselves re-processed
    for ev in log:
        if ev[0] == "proc" and _origin(ev[1]) != "host":
            o = _origin(ev[1])
            bad.append((f"msg_proc-applied-to-fresh-{o}-message", f"msg_proc was called with the message (payload {ev[1]}) that an inserted {o} plan yielded"))
            break
    nested = any(ev[0] == "proc" and _origin(ev[1]) != "host" and any(r["payload"] == ev[1] for r in case["rules"]) for ev in log)
    if nested:
        return bad  # inserted messages were themselves replaced: the flat reading below does not apply
    # segments: host yields a message for which the processor inserted something
    i = 0
    n = len(log)
    while i < n:
        ev = log[i]
        if ev[0] == "host" and ev[1] == "yield" and i + 1 < n and log[i + 1][0] == "proc":
            k = log[i + 1][2]
            rule = next((r for r in case["rules"] if r["payload"] == log[i + 1][1]), None)
            if rule is not None and (rule["head"] is not None or rule["tail"] is not None):
                j = i + 2
                seg = []
                while j < n and log[j][0] != "host":
                    seg.append(log[j])
                    j += 1
                host_next = log[j] if j < n else None
                bad += _segment(case, rule, k, seg, host_next, ev[2])
                i = j
                continue
        i += 1
    return bad


CHECKED = {}


def _tick(k):
    CHECKED[k] = CHECKED.get(k, 0) + 1


def _segment(case, rule, k, seg, host_next, orig_payload):
    bad = []
    hname, tname = f"head{k}", f"tail{k}"
    names = [e[0] for e in seg if e[0] != "proc"]
    # order: everything head does comes before everything tail does
    if tname in names and hname in names and names.index(tname) < len(names) - 1 - names[::-1].index(hname):
        bad.append(("tail-not-after-head", f"tail events before head finished: {seg}"))
    hev = [e for e in seg if e[0] == hname]
    tev = [e for e in seg if e[0] == tname]
    if host_next is None or host_next[1] == "closed":
        return bad
    hend = next((e for e in hev if e[1] == "end"), None)
    tend = next((e for e in tev if e[1] == "end"), None)
    thrown = any(e[1] == "throw" for e in hev + tev)
    # (d) exceptions raised while running head or tail propagate to the host at the original yield
    for end, who in ((hend, "head"), (tend, "tail")):
        if end is not None and end[2] == "exc" and end[3] in G.EXCEPTION_CLASSES:
            want = ["host", "throw", end[3], end[4]]
            _tick(f"checked:exception-from-{who}-reaches-host")
            if host_next != want and not (who == "head" and tend is not None and tend[2] == "exc"):
                bad.append((f"exception-from-{who}-not-delivered-to-host", f"{who} raised {end[3:]} but the host next got {host_next}"))
            return bad
    if thrown or hend is None:
        return bad
    if rule["head"] is None:
        # (None, tail): the original message passes through first
        if not hev and orig_payload is not None:
            pass
    # (a) the host receives the response to head's last message (None if head yielded nothing)
    sends = [e for e in hev if e[1] == "send"]
    if rule["head"] is not None:
        want_val = sends[-1][2] if sends else None
        if hend[2] == "ret" and (rule["tail"] is None or (tend is not None and tend[2] == "ret")):
            _tick("checked:host-gets-heads-last-response" + ("-after-tail" if rule["tail"] is not None else ""))
            if host_next != ["host", "send", want_val]:
                bad.append(("host-did-not-get-response-to-heads-last-message", f"head's last message was answered {want_val} but the host got {host_next}; segment {seg}"))
    # (b) tail runs immediately after head, its responses are swallowed
    if rule["tail"] is not None and hend[2] == "ret" and tend is None and host_next[1] in ("send", "throw"):
        bad.append(("tail-skipped", f"head returned but the host was resumed ({host_next}) before the tail finished; segment {seg}"))
    return bad


# ----------------------------------------------------------------------------- probe: stale tail_cache entry


def probe_stale_tail():
    """Implementation-only probe (the Lean model gives every generator a unique id, CPython does
    not): head 0 (with tail 0 cached) is killed by an exception thrown in from outside --
    plan_mutator's `except Exception` of the throw branch pops the head but leaves
    tail_cache[id(head0)] behind.  The later insertions are (None, tail n); when the generator object
    of such a tail is allocated at the address of the dead head, exhausting it pops the STALE entry
    and tail 0 runs although its head died long ago.  Nothing is kept alive here on purpose."""
    from bluesky.preprocessors import plan_mutator

    def host():
        for i in range(1, 7):
            try:
                yield G.Msg("null", i)
            except G.E1:
                pass

    def one(payload):
        yield G.Msg("null", payload)

    calls = [0]

    def proc(msg):
        if msg.obj >= HEAD0:
            return None, None
        n = calls[0]
        calls[0] += 1
        if n == 0:
            return one(HEAD0), one(TAIL0)
        return None, one(TAIL0 + n)

    script = [["send", None], ["throw", "E1", 5]] + [["send", None]] * 12
    trace = G.drive(plan_mutator(host(), proc), script)
    return script, trace


def probe_stale_result():
    """Implementation-only probe, the sibling of probe_stale_tail for the OTHER id()-keyed cache: a TAIL killed by an
    exception thrown in from outside (at the tail's own message) must have its saved head response
    (tail_result_cache[id(tail)]) forgotten.  Otherwise a later inserted HEAD that CPython allocates at the dead tail's
    address gets that stale response handed to the host instead of the response to its own last message.
    m1 -> (head, tail): throw at the tail's message; m2 -> head killed by a throw (rebinds plan_mutator's `failed_gen`);
    m2b -> a head that finishes (rebinds `gen`); m3 -> heads are allocated until one has the dead tail's id.
    -> (conclusive, host_log, emitted)"""
    from bluesky.preprocessors import plan_mutator

    class Boom(Exception):
        pass

    def gen(cmds):  # one generator function for every inserted plan: same object size, so a freed id is handed out again
        for c in cmds:
            yield G.Msg(c)

    for _attempt in range(5):
        state = {"dead": None, "reused": False, "keep": []}
        host_log = []

        def host():
            for m in ("m1", "m2"):
                try:
                    r = yield G.Msg(m)
                    host_log.append([m, r])
                except Boom:
                    host_log.append(["caught", m])
            for m in ("m2b", "m3"):
                r = yield G.Msg(m)
                host_log.append([m, r])

        def proc(msg):
            if msg.command == "m1":
                tail = gen(["boom1"])
                state["dead"] = id(tail)  # an int: no reference is kept
                return gen(["h1"]), tail
            if msg.command == "m2":
                return gen(["boom2"]), None
            if msg.command == "m2b":
                return gen(["x"]), None
            if msg.command == "m3":
                cand = None
                for _ in range(5000):
                    cand = gen(["q"])
                    if id(cand) == state["dead"]:
                        state["reused"] = True
                        return cand, None
                    state["keep"].append(cand)
                return cand, None
            return None, None

        emitted = []
        plan = plan_mutator(host(), proc)
        try:
            msg = plan.send(None)
            while len(emitted) < 50:
                emitted.append(msg.command)
                msg = plan.throw(Boom(msg.command)) if msg.command.startswith("boom") else plan.send("resp:" + msg.command)
        except StopIteration:
            pass
        except Boom:
            host_log.append(["escaped", "Boom"])
        if state["reused"] or host_log != STALE_RESULT_EXPECTED:
            return state["reused"], host_log, emitted
    return False, host_log, emitted


STALE_RESULT_EXPECTED = [["caught", "m1"], ["caught", "m2"], ["m2b", "resp:x"], ["m3", "resp:q"]]


def judge_probe_result(res):
    conclusive, host_log, emitted = probe_stale_result()
    res.count("probe:stale-result" + ("" if conclusive else ":id-not-reused(inconclusive)"))
    if host_log != STALE_RESULT_EXPECTED:
        res.violations.append(
            C.Violation(
                "stale-head-response-of-killed-tail-given-to-later-head",
                f"the host must receive the response to the inserted head's LAST message: expected {STALE_RESULT_EXPECTED}, got {host_log} "
                f"(emitted {emitted}) -- the saved head response of a tail killed by a thrown exception was found again under a reused id()",
                {"probe": "stale_result", "host_log": host_log, "emitted": emitted},
            )
        )


def judge_probe(res):
    judge_probe_result(res)
    script, trace = probe_stale_tail()
    ylds = [o[1] for o in trace if o[0] == "yld"]
    res.count("probe:stale-tail")
    if ylds[:1] == [HEAD0] and TAIL0 in ylds:
        res.violations.append(
            C.Violation(
                "stale-tail-of-killed-head-runs-after-later-insertion",
                f"head 0 was killed by a thrown exception (its tail must never run) but tail 0's message {TAIL0} was emitted later: {ylds} "
                "-- stale tail_cache[id(head0)] entry found again under a reused id()",
                {"probe": "stale_tail", "script": script, "trace": trace},
            )
        )


# ----------------------------------------------------------------------------- cases

STEP = [["send", 7], ["send", 8], ["throw", "E1", 5], ["close"]]
Y = ["yield", 0, True]


def _case(host, rules, scripts):
    rr = []
    for (payload, head, tail) in rules:
        rr.append({"payload": payload, "head": G.renumber(head, HEAD0) if head is not None else None, "tail": G.renumber(tail, TAIL0) if tail is not None else None})
    return {"host": G.renumber(host, 1), "rules": rr, "scripts": scripts}


def _cases(ctx):
    rng = ctx.rng
    deep = ctx.tier == "thorough" or ctx.deep
    out = []
    for path in sorted((C.VERIF / "corpus" / "C21").glob("*.json")):
        d = json.loads(path.read_text())
        if "probe" in d:
            continue  # implementation-only probes are run by judge_probe on every check
        d["scripts"] = d.get("scripts") or [d.pop("script")]
        out.append(("corpus", d))
    scripts4 = list(G.enum_scripts(4, STEP))
    scripts5 = list(G.enum_scripts(5, STEP))
    hosts = [s for n in range(1, (4 if deep else 3)) for s in G.enum_stmts(n)]
    hosts += [["yieldShared", 0, True], ["seq", ["yieldShared", 0, True], ["ret", ["var"]]], ["seq", ["yieldShared", 0, True], ["yieldShared", 0, True]]]
    heads = [None, Y, ["seq", Y, Y], ["yieldShared", 0, True], ["raise", "E2", 2], ["pass"], ["seq", Y, ["raise", "E2", 2]], ["try", Y, "Exception", ["ret", ["var"]], ["pass"], ["pass"]]]
    tails = [None, Y, ["raise", "E2", 3], ["pass"], ["seq", Y, Y], ["yieldShared", 0, True], ["seq", Y, ["yieldShared", 0, True]]]
    combos = [(h, t) for h in heads for t in tails if not (h is None and t is None)]
    for host in hosts:
        small = G.size(host) <= (2 if deep else 1)
        cs = combos if small else rng.sample(combos, 8)
        scripts = scripts5 if (deep and small) else scripts4
        for h, t in cs:
            payload = 0 if host[0] == "yieldShared" or (host[0] == "seq" and host[1][0] == "yieldShared") else 1
            out.append(("exhaustive", _case(host, [(payload, h, t)], scripts)))
    # rules that also match inserted messages (F9: nested insertion), several rules, random plans
    for _ in range(ctx.budget(500, 6000)):
        host = G.rand_stmt(rng, rng.randrange(1, 9))
        nrules = rng.randrange(1, 4)
        rules = []
        for _ in range(nrules):
            x = rng.random()
            payload = rng.randrange(1, 5) if x < 0.7 else (rng.choice([HEAD0, HEAD0 + 1, TAIL0]) if x < 0.9 else rng.randrange(0, 2))
            head = G.rand_stmt(rng, rng.randrange(1, 5)) if rng.random() < 0.7 else None
            tail = G.rand_stmt(rng, rng.randrange(1, 4)) if rng.random() < 0.5 else None
            rules.append((payload, head, tail))
        out.append(("random", _case(host, rules, [G.rand_script(rng, rng.randrange(2, 11), p_misuse=0.05) for _ in range(5)])))
    return out


def _lean(cases):
    reqs = [json.dumps(c) for _, c in cases]
    chunk = max(1, (len(reqs) + 3) // 4)
    parts = [reqs[i : i + chunk] for i in range(0, len(reqs), chunk)]
    with ThreadPoolExecutor(max_workers=4) as ex:
        outs = list(ex.map(lambda part: C.lean_batch(DRIVER, part), parts))
    return [json.loads(line) for part in outs for line in part]


def _diverges(case):
    """a rule that matches a message its own head/tail yields again makes plan_mutator spin or
    recurse without bound: outside the termination hypothesis, not generated"""
    pays = {r["payload"] for r in case["rules"]}

    def yields(ast, acc):
        if ast is None:
            return acc
        k = ast[0]
        if k in ("yield", "yieldShared"):
            acc.add(ast[1])
        for x in ast[1:]:
            if isinstance(x, list) and x and isinstance(x[0], str):
                yields(x, acc)
        return acc

    inserted = set()
    for r in case["rules"]:
        yields(r["head"], inserted)
        yields(r["tail"], inserted)
    return bool({p for p in inserted if p >= HEAD0} & pays)


def _judge(res, case, si, impl):
    s = case["scripts"][si]
    one = {"host": case["host"], "rules": case["rules"], "script": s}
    for sig, text in oracle(case, s, impl["itrace"][si], impl["log"][si]):
        res.violations.append(C.Violation(sig, text, dict(one, trace=impl["itrace"][si], log=impl["log"][si])))
    if impl["itrace"][si] != impl["trace"][si]:
        res.notes.append("instrumented trace differs from plain trace on " + json.dumps(one)[:300])


def run(ctx, model=True):
    G.quiet_unraisable()
    res = C.Result()
    res.rule = (
        "cases = (host plan, rules payload->(head, tail), scripts).  Corpus; EVERY host plan of the grammar with <=2 (quick) "
        "/ <=3 (thorough) nodes plus hosts yielding a shared Msg object, one rule on the host's first message with head in "
        "{None, 1 msg, 2 msgs, re-yield the ORIGINAL object, raise, empty, msg then raise, catches-and-returns} x tail in "
        "{None, 1 msg, raise, empty, 2 msgs} (all 39 combinations for 1-node hosts, 8 sampled for larger ones; thorough: all "
        "for <=2-node hosts) x EVERY script of length 4 (thorough, small hosts: 5) over {next, send 7, send 8, throw E1, close; misuse of the fresh generator}; random hosts / heads / tails "
        "(try/finally with yields, nested yield from, loops) with 1-3 rules, 20% of them matching messages of inserted "
        "plans (nested insertion), x random scripts of length 2-10.  Rules whose own inserted plans yield a matching "
        "message again (unbounded recursion) are not generated.  Each case: real plan_mutator plain and instrumented "
        "(every plan wrapped in a spy generator; processor calls logged), and the Lean machine.  Non-trivial: an insertion "
        "happened."
    )
    cases = [(l, c) for l, c in _cases(ctx) if not _diverges(c)]
    impl = [run_impl(c) for _, c in cases]
    lean = _lean(cases) if model else None
    for ci, (label, case) in enumerate(cases):
        res.count("cases:" + label)
        if lean is not None and "traces" not in lean[ci]:
            res.disagreements.append({"case": case, "model_error": lean[ci]})
            continue
        for si, s in enumerate(case["scripts"]):
            one = {"host": case["host"], "rules": case["rules"], "script": s}
            log = impl[ci]["log"][si]
            inserted = any(e[1] == "start" and e[0] != "host" for e in log)
            res.seen(one, inserted)
            res.count("insertions:" + str(min(3, sum(1 for e in log if e[1] == "start" and e[0].startswith("head")))))
            if any(e[1] == "end" and e[2] == "exc" and e[0] != "host" for e in log):
                res.count("inserted-plan-raised")
            _judge(res, case, si, impl[ci])
            if lean is not None:
                if lean[ci]["traces"][si] != impl[ci]["trace"][si]:
                    res.disagreements.append({"case": one, "model": lean[ci]["traces"][si], "impl": impl[ci]["trace"][si]})
                if len(res.samples) < 3 and label == "random" and inserted and len(log) > 8:
                    res.samples.append({"case": one, "impl": {"trace": impl[ci]["trace"][si], "log": log}, "model": {"trace": lean[ci]["traces"][si]}})
    judge_probe(res)
    for k, v in CHECKED.items():
        res.count(k, v)
    CHECKED.clear()
    res.exhaustive = True
    return res


def run_impl_only(ctx):
    return run(ctx, model=False)


def replay(ctx, data):
    G.quiet_unraisable()
    res = C.Result()
    case = dict(data["case"])
    if case.get("probe") in ("stale_tail", "stale_result"):
        judge_probe(res)
        return res
    if "host" not in case:
        return res
    case["scripts"] = [case.pop("script")]
    case.pop("trace", None)
    case.pop("log", None)
    _judge(res, case, 0, run_impl(case))
    return res
