"""C26 -- snaked grids are a continuous back-and-forth ordering of the full grid.

Tie: (T) the slice offsets / concatenation order / statement shapes of `snake_cyclers` are re-read
from the current utils/__init__.py into lean/BlueskyVerif/Pure/SnakeGenerated.lean; the model
(Pure/Snake.lean) and every theorem of Props/C26.lean depend on them.  (C) the hand-written model is
run against the real `snake_cyclers` (real `cycler` objects), `plan_patterns.outer_product` and
`outer_list_product` on the same axis lengths / flag vectors; the property oracle (permutation,
product order of unsnaked axes, reversal on every slower advance, adjacency) is evaluated on what
the implementation returned.
"""
from __future__ import annotations

import ast
import itertools
import json
import math

import common as C
import pyexpr as P
from scanfakes import FakeMotor

MANIFEST = {
    "text": "FULL. Theorems (Props/C26.lean) for ANY number of axes, ANY lengths, ANY snake-flag vector, about a Lean "
    "transcription of snake_cyclers (product shortcut; concatenate [v, v[::-1]] / repeat / tile / take total; zip of the "
    "columns) whose slice offsets are regenerated from the source on every run: closed form of every axis index "
    "(p / R_i % L_i, mirrored iff snaked and an odd number of slower-axis advances so far), first axis never reversed, "
    "unsnaked axes in plain product order, the trajectory is a duplicate-free permutation of the full Cartesian product "
    "of length prod L_i, consecutive points move exactly one axis by one step with snaked faster axes holding and "
    "unsnaked ones wrapping L-1 -> 0 (exactly one coordinate changes when all axes beyond the first are snaked); "
    "outer_product / outer_list_product flag derivation.",
    "note": "Trusted: Lean kernel; the extractor (AST shapes of snake_cyclers); numpy repeat/tile/concatenate/prod and "
    "cycler +, *, _transpose behave like the list functions of the model (tied by the correspondence run: exhaustive "
    "<=4 axes x length <=4 x all flag vectors in thorough, plus random larger); axis values are abstract labels "
    "(multi-key cyclers: every key column is a function of the row label).",
    "technique": "Lean 4 proof (induction over the axis list, Nat div/mod) over a source-parametrised model + "
    "correspondence run against real cycler objects",
}
LEAN_MODULES = ["BlueskyVerif.Props.C26"]
DRIVER_MODULES = ["BlueskyVerif.Pure.Snake", "BlueskyVerif.Pure.Patterns"]
DRIVER = "Drivers/C26.lean"
ASSUMPTIONS = [
    "every cycler has length >= 1 (cycler() itself refuses an empty iterable)",
    "np.repeat / np.tile / np.concatenate / slicing / np.prod and cycler `+`, `*`, `_transpose` are modelled by the"
    " corresponding list functions (repeatEach, tile, ++, take, prod, zipWith, flatMap); tied only by the correspondence run",
    "axis values are abstract labels; a multi-key cycler is one axis whose key columns are functions of the row label",
]
TRUSTED = ["harness/props/C26.py::extract recognises the statement shapes of snake_cyclers (raises if they change)"]

GEN_PATH = C.LEAN / "BlueskyVerif" / "Pure" / "SnakeGenerated.lean"


# ----------------------------------------------------------------------------- translator
def _unp(n):
    return ast.unparse(n).strip()


def _offset(node, var="i"):
    """`i` -> 0, `i + k` -> k (k a non-negative int literal)."""
    if isinstance(node, ast.Name) and node.id == var:
        return 0
    if isinstance(node, ast.BinOp) and isinstance(node.op, ast.Add) and isinstance(node.left, ast.Name) and node.left.id == var:
        if isinstance(node.right, ast.Constant) and isinstance(node.right.value, int) and node.right.value >= 0:
            return node.right.value
    raise P.Untranslatable(f"slice bound not of the form i / i + k: {_unp(node)}")


def extract(ctx):
    src = (C.SRC / "utils" / "__init__.py").read_text()
    tree = ast.parse(src)
    fn = next((n for n in tree.body if isinstance(n, ast.FunctionDef) and n.name == "snake_cyclers"), None)
    if fn is None:
        raise P.Untranslatable("snake_cyclers not found")
    body = P.body_wo_doc(fn)
    facts = {"where": f"utils/__init__.py:{fn.lineno}"}
    if [a.arg for a in fn.args.args] != ["cyclers", "snake_booleans"]:
        raise P.Untranslatable("snake_cyclers signature changed")
    # 1. length check
    st = body[0]
    if not (isinstance(st, ast.If) and _unp(st.test) == "len(cyclers) != len(snake_booleans)" and isinstance(st.body[0], ast.Raise) and _unp(st.body[0].exc).startswith("ValueError(")):
        raise P.Untranslatable("length check not recognised")
    # 2. product shortcut
    st = body[1]
    ok = isinstance(st, ast.If) and isinstance(st.test, ast.UnaryOp) and isinstance(st.test.op, ast.Not) and not st.orelse
    if ok:
        call = st.test.operand
        ok = isinstance(call, ast.Call) and _unp(call.func) == "any" and len(call.args) == 1 and isinstance(call.args[0], ast.Subscript)
    if ok:
        sub = call.args[0]
        ok = _unp(sub.value) == "snake_booleans" and isinstance(sub.slice, ast.Slice) and sub.slice.upper is None and sub.slice.step is None
        ok = ok and isinstance(sub.slice.lower, ast.Constant) and isinstance(sub.slice.lower.value, int) and sub.slice.lower.value >= 0
        ok = ok and len(st.body) == 1 and _unp(st.body[0]) == "return reduce(operator.mul, cyclers)"
    if not ok:
        raise P.Untranslatable("product shortcut not recognised: " + _unp(body[1])[:120])
    K = sub.slice.lower.value
    # 3. fixed statements
    fixed = {_unp(s) for s in body[2:] if not isinstance(s, ast.For)}
    for want in ("lengths = [len(c) for c in cyclers]", "total_length = np.prod(lengths)", "new_cyclers = []", "return reduce(operator.add, new_cyclers)"):
        if want not in fixed:
            raise P.Untranslatable(f"statement `{want}` not found")
    if _unp(body[-1]) != "return reduce(operator.add, new_cyclers)":
        raise P.Untranslatable("final statement is not the reduce(operator.add, ...)")
    loops = [s for s in body if isinstance(s, ast.For)]
    if len(loops) != 1 or _unp(loops[0].target) != "(i, (c, snake))" or _unp(loops[0].iter) != "enumerate(zip(cyclers, snake_booleans))":
        raise P.Untranslatable("main loop not recognised")
    lb = loops[0].body
    A = B = None
    inner = None
    for s in lb:
        if isinstance(s, ast.Assign) and _unp(s.targets[0]) == "num_tiles":
            v = s.value
            if not (isinstance(v, ast.Call) and _unp(v.func) == "np.prod" and isinstance(v.args[0], ast.Subscript) and _unp(v.args[0].value) == "lengths"):
                raise P.Untranslatable("num_tiles: " + _unp(s))
            sl = v.args[0].slice
            if not (isinstance(sl, ast.Slice) and sl.lower is None and sl.step is None and sl.upper is not None):
                raise P.Untranslatable("num_tiles slice: " + _unp(s))
            A = _offset(sl.upper)
        elif isinstance(s, ast.Assign) and _unp(s.targets[0]) == "num_repeats":
            v = s.value
            if not (isinstance(v, ast.Call) and _unp(v.func) == "np.prod" and isinstance(v.args[0], ast.Subscript) and _unp(v.args[0].value) == "lengths"):
                raise P.Untranslatable("num_repeats: " + _unp(s))
            sl = v.args[0].slice
            if not (isinstance(sl, ast.Slice) and sl.upper is None and sl.step is None and sl.lower is not None):
                raise P.Untranslatable("num_repeats slice: " + _unp(s))
            B = _offset(sl.lower)
        elif isinstance(s, ast.For):
            inner = s
        else:
            raise P.Untranslatable("unexpected statement in the axis loop: " + _unp(s)[:100])
    if A is None or B is None or inner is None:
        raise P.Untranslatable("num_tiles / num_repeats / key loop missing")
    if _unp(inner.target) != "(k, v)" or _unp(inner.iter) != "c._transpose().items()":
        raise P.Untranslatable("key loop not recognised")
    forward = None
    seen = []
    for s in inner.body:
        u = _unp(s)
        if isinstance(s, ast.If):
            if _unp(s.test) != "snake" or s.orelse or len(s.body) != 1:
                raise P.Untranslatable("snake branch: " + u[:100])
            b = _unp(s.body[0])
            if b == "v_ndarray = np.concatenate([v_ndarray, v_ndarray[::-1]])":
                forward = True
            elif b == "v_ndarray = np.concatenate([v_ndarray[::-1], v_ndarray])":
                forward = False
            else:
                raise P.Untranslatable("snake branch body: " + b)
        else:
            seen.append(u)
    want = ["v_ndarray = np.array(v)", "v2 = np.tile(np.repeat(v_ndarray, num_repeats), int(num_tiles))", "expanded = v2[:total_length]", "new_cyclers.append(cycler(k, expanded))"]
    if seen != want or forward is None:
        raise P.Untranslatable(f"key loop body changed: {seen}")
    facts.update({"shortcutFlagsFrom": K, "tilesUpTo": A, "repeatsFrom": B, "forwardFirst": forward})
    out = [
        "-- GENERATED by harness/props/C26.py from src/bluesky/utils/__init__.py (snake_cyclers) -- do not edit.",
        "namespace BlueskyVerif.Pure.Snake.Gen",
        "",
        "/-- `if not any(snake_booleans[K:])`: K -/",
        f"def shortcutFlagsFrom : Nat := {K}",
        "/-- `num_tiles = np.prod(lengths[:i + A])`: A -/",
        f"def tilesUpTo : Nat := {A}",
        "/-- `num_repeats = np.prod(lengths[i + B:])`: B -/",
        f"def repeatsFrom : Nat := {B}",
        "/-- `np.concatenate([v, v[::-1]])` (true) or `[v[::-1], v]` (false) -/",
        f"def forwardFirst : Bool := {'true' if forward else 'false'}",
        "",
        "end BlueskyVerif.Pure.Snake.Gen",
        "",
    ]
    C.write_if_changed(GEN_PATH, "\n".join(out))
    return facts


# ----------------------------------------------------------------------------- implementation side
def _val(axis, idx, key):
    return 1000 * axis + 10 * idx + key


def _decode(axis, value, key):
    v = int(value) - 1000 * axis - key
    if float(value) != int(value) or v % 10 != 0:
        return None
    return v // 10


def _points_from_cycler(cyc, axis_keys):
    """axis_keys: per axis the list of key objects.  -> list of index tuples, or a string naming a problem."""
    pts = []
    allkeys = {k for ks in axis_keys for k in ks}
    if set(cyc.keys) != allkeys:
        return "keys-differ"
    for d in cyc:
        pt = []
        for a, ks in enumerate(axis_keys):
            idxs = {_decode(a, d[k], j) for j, k in enumerate(ks)}
            if len(idxs) != 1 or None in idxs:
                return "inconsistent-keys"
            pt.append(idxs.pop())
        pts.append(pt)
    if len(cyc) != len(pts):
        return "len-differs"
    return pts


def run_impl(case):
    from cycler import cycler

    import bluesky.plan_patterns as PP
    from bluesky.utils import snake_cyclers

    fn = case["fn"]
    lengths = case["lengths"]
    n = len(lengths)
    try:
        if fn == "snake_cyclers":
            nkeys = case.get("keys") or [1] * n
            axis_keys, cycs = [], []
            for a, L in enumerate(lengths):
                ks = [FakeMotor(f"m{a}_{j}") for j in range(nkeys[a])]
                c = None
                for j, k in enumerate(ks):
                    cj = cycler(k, [_val(a, i, j) for i in range(L)])
                    c = cj if c is None else c + cj
                axis_keys.append(ks)
                cycs.append(c)
            r = snake_cyclers(cycs, list(case["flags"]))
        elif fn == "outer_list_product":
            motors = [FakeMotor(f"m{a}") for a in range(n)]
            args = []
            for a, L in enumerate(lengths):
                args += [motors[a], [_val(a, i, 0) for i in range(L)]]
            sa = case["snake_axes"]
            if isinstance(sa, list):
                sa = [motors[i] for i in sa]
            axis_keys = [[m] for m in motors]
            r = PP.outer_list_product(args, sa)
        elif fn == "outer_product":
            motors = [FakeMotor(f"m{a}") for a in range(n)]
            args = []
            for a, L in enumerate(lengths):
                # linspace(start, start + 10*(L-1), L) is exact: values start + 10*i
                args += [motors[a], _val(a, 0, 0), _val(a, L - 1, 0), L]
                if case["snakes"] is not None and a > 0:
                    args.append(bool(case["snakes"][a - 1]))
            axis_keys = [[m] for m in motors]
            r = PP.outer_product(args)
        else:
            return {"res": "bad-fn"}
    except ValueError:
        return {"res": "ValueError"}
    except TypeError:
        return {"res": "TypeError"}
    pts = _points_from_cycler(r, axis_keys)
    if isinstance(pts, str):
        return {"res": pts}
    return {"res": "ok", "points": pts}


def requested_flags(case):
    """The snaking the caller asked for, as the documentation defines it (first axis never snaked)."""
    n = len(case["lengths"])
    fn = case["fn"]
    if fn == "snake_cyclers":
        fl = [bool(b) for b in case["flags"]]
    elif fn == "outer_list_product":
        sa = case["snake_axes"]
        if sa is True:
            fl = [True] * n
        elif not sa:
            fl = [False] * n
        else:
            fl = [i in sa for i in range(n)]
    else:
        fl = [False] * n if case["snakes"] is None else [False] + [bool(b) for b in case["snakes"]]
    if fl:
        fl[0] = False
    return fl


def valid(case):
    n = len(case["lengths"])
    if n == 0 or any(L < 1 for L in case["lengths"]):
        return False
    if case["fn"] == "snake_cyclers":
        return len(case["flags"]) == n
    if case["fn"] == "outer_product":
        return case["snakes"] is None or len(case["snakes"]) == n - 1
    return True


def oracle(case, obs):
    """The property, stated on the trajectory the implementation returned.  -> [(sig, what)]"""
    bad = []
    fn = case["fn"]
    if not valid(case):
        return bad
    lengths = case["lengths"]
    n = len(lengths)
    if obs["res"] != "ok":
        return [(f"{fn}:valid-input-fails:{obs['res']}", f"valid input gives {obs['res']}")]
    pts = obs["points"]
    flags = requested_flags(case)
    total = math.prod(lengths)
    mix = "all-snaked" if all(flags[1:]) and n > 1 else ("none-snaked" if not any(flags) else "mixed")
    cls = f"{fn}:axes={n}:{mix}"
    # (1) permutation of the full Cartesian product
    if len(pts) != total or sorted(map(tuple, pts)) != sorted(itertools.product(*[range(L) for L in lengths])):
        bad.append((f"{cls}:not-a-permutation", f"{len(pts)} points for a grid of {total}; not a permutation of the full product"))
        return bad
    R = [math.prod(lengths[i + 1 :]) for i in range(n)]
    adv = [0] * n  # number of slower-axis advances seen so far, per axis
    for p, pt in enumerate(pts):
        if p > 0:
            prev = pts[p - 1]
            for i in range(n):
                if prev[:i] != pt[:i]:
                    adv[i] += 1
        for i in range(n):
            digit = (p // R[i]) % lengths[i]
            if not flags[i]:
                # (2) unsnaked axes follow plain product order
                if pt[i] != digit:
                    bad.append((f"{cls}:unsnaked-axis-not-in-product-order", f"axis {i} (unsnaked) has index {pt[i]} at position {p}, product order says {digit}"))
                    return bad
            else:
                # (3) snaked axes reverse each time any slower axis advances
                want = digit if adv[i] % 2 == 0 else lengths[i] - 1 - digit
                if pt[i] != want:
                    bad.append((f"{cls}:snaked-axis-direction", f"axis {i} (snaked) has index {pt[i]} at position {p} after {adv[i]} slower-axis advances, expected {want}"))
                    return bad
        # (4) consecutive points differ only in the slowest axis that changed; it moves one step;
        #     faster snaked axes hold, faster unsnaked axes wrap
        if p > 0:
            prev = pts[p - 1]
            changed = [i for i in range(n) if prev[i] != pt[i]]
            if not changed:
                bad.append((f"{cls}:adjacent-repeat", f"positions {p - 1} and {p} are the same point"))
                return bad
            j = changed[0]
            okj = abs(prev[j] - pt[j]) == 1
            for k in range(j + 1, n):
                if flags[k]:
                    okj = okj and prev[k] == pt[k]
                else:
                    okj = okj and prev[k] == lengths[k] - 1 and pt[k] == 0
            if not okj:
                bad.append((f"{cls}:adjacent", f"step {prev} -> {pt} at position {p}: more than the expected axis moves, or not by one step"))
                return bad
    return bad


# ----------------------------------------------------------------------------- cases
def exhaustive_cases(max_axes, max_len, max_axes_small=0):
    for n in range(1, max_axes + 1):
        for lengths in itertools.product(range(1, max_len + 1), repeat=n):
            for flags in itertools.product([False, True], repeat=n):
                yield {"fn": "snake_cyclers", "lengths": list(lengths), "flags": list(flags)}
    for n in range(max_axes + 1, max_axes_small + 1):
        for lengths in itertools.product(range(1, 3), repeat=n):
            for flags in itertools.product([False, True], repeat=n):
                yield {"fn": "snake_cyclers", "lengths": list(lengths), "flags": list(flags)}


def pattern_cases(max_axes, max_len):
    """outer_product / outer_list_product for every small shape and every way of asking for snaking."""
    for n in range(1, max_axes + 1):
        for lengths in itertools.product(range(1, max_len + 1), repeat=n):
            L = list(lengths)
            yield {"fn": "outer_list_product", "lengths": L, "snake_axes": False}
            yield {"fn": "outer_list_product", "lengths": L, "snake_axes": True}
            for k in range(1, n + 1):
                for sub in itertools.combinations(range(n), k):
                    yield {"fn": "outer_list_product", "lengths": L, "snake_axes": list(sub)}
            if all(x >= 1 for x in L):
                yield {"fn": "outer_product", "lengths": L, "snakes": None}
                if n >= 2:
                    for sn in itertools.product([False, True], repeat=n - 1):
                        yield {"fn": "outer_product", "lengths": L, "snakes": list(sn)}


def gen_case(rng):
    n = rng.choice([1, 2, 2, 3, 3, 3, 4, 4, 5, 6, 7])
    cap = 4000
    lengths = []
    tot = 1
    for _ in range(n):
        L = rng.choice([1, 2, 2, 3, 3, 4, 5, 6, 7, 9, 12])
        if tot * L > cap:
            L = 1 if tot * 2 > cap else 2
        lengths.append(L)
        tot *= L
    style = rng.random()
    if style < 0.25:
        flags = [True] * n
    elif style < 0.35:
        flags = [False] * n
    else:
        flags = [rng.random() < 0.5 for _ in range(n)]
    kind = rng.random()
    if kind < 0.6:
        case = {"fn": "snake_cyclers", "lengths": lengths, "flags": flags, "keys": [rng.choice([1, 1, 1, 2, 3]) for _ in range(n)]}
    elif kind < 0.8:
        r = rng.random()
        sa = True if r < 0.3 else (False if r < 0.4 else [i for i in range(n) if flags[i]])
        case = {"fn": "outer_list_product", "lengths": lengths, "snake_axes": sa}
    else:
        case = {"fn": "outer_product", "lengths": lengths, "snakes": None if rng.random() < 0.15 else flags[1:]}
    return case


def malformed_cases(rng, k):
    yield {"fn": "snake_cyclers", "lengths": [], "flags": []}
    for _ in range(k):
        n = rng.choice([1, 2, 3, 4])
        m = rng.choice([x for x in range(0, 6) if x != n])
        yield {"fn": "snake_cyclers", "lengths": [rng.choice([1, 2, 3]) for _ in range(n)], "flags": [rng.random() < 0.5 for _ in range(m)]}


def _cases(ctx):
    corpus = C.VERIF / "corpus" / "C26"
    if corpus.exists():
        for f in sorted(corpus.glob("*.json")):
            yield json.loads(f.read_text())["case"]
    thorough = ctx.tier == "thorough" or ctx.deep
    if thorough:
        yield from exhaustive_cases(4, 4, 6)
        yield from pattern_cases(3, 3)
    else:
        yield from exhaustive_cases(3, 3, 4)
        yield from pattern_cases(3, 2)
    yield from malformed_cases(ctx.rng, ctx.budget(10, 60))
    for _ in range(ctx.budget(250, 2500)):
        yield gen_case(ctx.rng)


def _nontrivial(case, obs):
    if obs["res"] != "ok":
        return True
    fl = requested_flags(case)
    return any(fl[i] and case["lengths"][i] > 1 and math.prod(case["lengths"][:i]) > 1 for i in range(len(fl)))


def _lean_req(case):
    return json.dumps({k: v for k, v in case.items() if k != "keys"})


def run(ctx, model=True):
    res = C.Result(
        rule="cases = corpus + exhaustive (axes x lengths x all flag vectors; quick: <=3 axes of length <=3 and <=4 axes of "
        "length <=2; thorough: <=4 axes of length <=4 and <=6 axes of length <=2) + every small outer_product / "
        "outer_list_product request + malformed (length mismatch, empty) + random larger grids (<=7 axes, <=4000 points, "
        "multi-key cyclers); non-trivial = some snaked axis of length >1 below a slower axis that advances, or an error"
    )
    res.exhaustive = True
    cases, obss = [], []
    for case in _cases(ctx):
        obs = run_impl(case)
        cases.append(case)
        obss.append(obs)
        res.seen(case, _nontrivial(case, obs))
        res.count(case["fn"])
        res.count(f"axes={len(case['lengths'])}")
        res.count("res:" + obs["res"])
        for sig, what in oracle(case, obs):
            res.violations.append(C.Violation(sig, what, case))
    res.violations.sort(key=lambda v: (math.prod(v.case["lengths"] or [0]), len(v.case["lengths"])))  # smallest replay first
    if model:
        replies = C.lean_batch(DRIVER, [_lean_req(c) for c in cases])
        for case, obs, rep in zip(cases, obss, replies):
            m = json.loads(rep)
            if m != obs:
                res.disagreements.append({"case": case, "model": _short(m), "impl": _short(obs)})
        small = [i for i, c in enumerate(cases) if 4 <= math.prod(c["lengths"] or [0]) <= 12 and _nontrivial(c, obss[i])]
        for i in (small[:1] + small[len(small) // 2 : len(small) // 2 + 1] + small[-1:]):
            res.samples.append({"case": cases[i], "impl": obss[i], "model": json.loads(replies[i])})
    else:
        res.samples.append({"case": cases[-1], "impl": _short(obss[-1])})
    return res


def _short(o):
    if isinstance(o, dict) and "points" in o and len(o["points"]) > 40:
        return {**o, "points": o["points"][:40] + ["..."]}
    return o


def run_impl_only(ctx):
    return run(ctx, model=False)


def replay(ctx, data):
    res = C.Result()
    case = data.get("case")
    if not case:
        return res
    obs = run_impl(case)
    for sig, what in oracle(case, obs):
        res.violations.append(C.Violation(sig, what, case))
    return res
