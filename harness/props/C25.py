"""C25 -- step scans visit exactly the documented trajectory.

Tie: (T) the initial value of pos_cache and the num_points / num_intervals expressions of scan_nd are
re-read from plans.py into lean/BlueskyVerif/Pure/StepScanGenerated.lean (the model and the theorems
depend on them), and the bodies of move_per_step / one_nd_step must still have the transcribed shape.
(C) the Lean model (Pure/Linspace, Pure/StepScan, with the C26 model of snake_cyclers whose
slice offsets are regenerated from the source by props/C26.py::extract) is run against the REAL plan
generators scan / inner_product_scan / list_scan / grid_scan / list_grid_scan / scan_nd / x2x_scan /
log_scan, consumed WITHOUT a RunEngine (every message answered with a canned response), on the same
inputs; compared: the complete canonical message list (command, device, exact position, which group
a wait waits for) and the num_points / num_intervals / shape / extents / snaking metadata of open_run.
The property oracle is evaluated on what the implementation emitted.
"""
from __future__ import annotations

import ast
import itertools
import json
import math
from fractions import Fraction

import common as C
import pyexpr as P
from scanfakes import FakeDetector, FakeMotor

from props import C26 as _C26

MANIFEST = {
    "text": "FULL for scan / inner_product_scan / list_scan / grid_scan / list_grid_scan / scan_nd / x2x_scan in exact "
    "rational arithmetic, PARTIAL for log_scan (structure only: np.logspace values are a parameter). Theorems "
    "(Props/C25.lean) for ANY number of motors / points / detectors: the motor positions in force at every save equal "
    "the documented trajectory point although move_per_step only sets motors whose target differs from pos_cache; the "
    "trajectory of scan is the inner product of linspaces (start + k*(stop-start)/(num-1)), that of grid_scan / "
    "list_grid_scan the row-major outer product with the requested snaking (C26 closed form); every per-point block is "
    "checkpoint, sets, wait(sets), triggers, [wait], create, reads, save -- exactly one checkpointed reading per point; "
    "num_points = number of points = prod(shape), extents bound every visited position and are attained, snaking = "
    "requested flags with the first axis never snaked.",
    "note": "Trusted: Lean kernel; exact rationals stand in for IEEE doubles (the correspondence compares exactly on "
    "inputs where numpy's linspace is exact -- dyadic start/stop, num-1 a power of two -- and with tolerance 1e-9 "
    "otherwise); numpy.linspace/logspace, cycler, toolz.partition; default per_step hooks only; plain motors (no "
    "pseudo-positioners, merge_cycler is the identity); stage/unstage order of motors is hash-ordered in the code and "
    "sorted by the harness; relative-set machinery of x2x_scan is modelled only as offset + final reset (C24 covers it).",
    "technique": "Lean 4 proof (induction over trajectory / step lists, reuse of the C26 theorems; core Lean only) over a "
    "model parametrised by facts re-extracted from plans.py / plan_stubs.py (pos_cache default, num_points / "
    "num_intervals expressions, statement shapes of move_per_step / one_nd_step) + correspondence run against the real "
    "plan generators without a RunEngine",
}
LEAN_MODULES = ["BlueskyVerif.Props.C25"]
DRIVER_MODULES = ["BlueskyVerif.Pure.StepScan"]
DRIVER = "Drivers/C25.lean"
ASSUMPTIONS = [
    "positions are exact rationals; IEEE rounding of numpy.linspace is not modelled (strict comparison only on inputs where it is exact)",
    "default per_step (one_nd_step / one_1d_step) and default take_reading (trigger_and_read); BLUESKY_PREDECLARE unset",
    "plain motors: no pseudo-positioners / coupled parents, no `locate`; motors are not Triggerable",
    "log_scan: the values of numpy.logspace are taken as given (PARTIAL)",
    "the plan is consumed without a RunEngine: every message is answered None (read: the device's read())",
]
TRUSTED = [
    "harness/props/C26.py::extract (slice offsets of snake_cyclers used by the grid trajectories)",
    "harness/props/C25.py::extract (pos_cache default, num_points/num_intervals expressions, statement shapes of move_per_step / one_nd_step)",
]


GEN_PATH = C.LEAN / "BlueskyVerif" / "Pure" / "StepScanGenerated.lean"

MOVE_PER_STEP = [
    "yield Msg('checkpoint')",
    "grp = _short_uid('set')",
    "for motor, pos in step.items():\n    if pos == pos_cache[motor]:\n        continue\n    yield Msg('set', motor, pos, group=grp)\n    pos_cache[motor] = pos",
    "yield Msg('wait', None, group=grp)",
]
ONE_ND_STEP = [
    "take_reading = trigger_and_read if take_reading is None else take_reading",
    "motors = step.keys()",
    "yield from move_per_step(step, pos_cache)",
    "yield from take_reading(list(detectors) + list(motors))",
]


def _len_minus(node, what):
    """`len(cycler)` -> 0, `len(cycler) - k` -> k."""
    if ast.unparse(node) == "len(cycler)":
        return 0
    if isinstance(node, ast.BinOp) and isinstance(node.op, ast.Sub) and ast.unparse(node.left) == "len(cycler)":
        if isinstance(node.right, ast.Constant) and isinstance(node.right.value, int) and node.right.value >= 0:
            return node.right.value
    raise P.Untranslatable(f"scan_nd {what}: {ast.unparse(node)}")


def extract(ctx):
    """(T) facts of plans.scan_nd / plan_stubs.move_per_step / one_nd_step the model is parametrised by:
    the initial value of pos_cache, the num_points / num_intervals expressions; the bodies of
    move_per_step and one_nd_step must have the transcribed shape (else: not checked any more)."""
    facts = dict(_C26.extract(ctx))  # the grid trajectories depend on the snake_cyclers constants
    tree = ast.parse((C.SRC / "plans.py").read_text())
    fn = next((n for n in tree.body if isinstance(n, ast.FunctionDef) and n.name == "scan_nd"), None)
    if fn is None:
        raise P.Untranslatable("scan_nd not found")
    md = next((s for s in fn.body if isinstance(s, ast.Assign) and ast.unparse(s.targets[0]) == "_md" and isinstance(s.value, ast.Dict)), None)
    if md is None:
        raise P.Untranslatable("scan_nd: `_md = {...}` not found")
    ent = {k.value: v for k, v in zip(md.value.keys, md.value.values) if isinstance(k, ast.Constant)}
    if "num_points" not in ent or "num_intervals" not in ent:
        raise P.Untranslatable("scan_nd: num_points / num_intervals entries missing")
    a, b = _len_minus(ent["num_points"], "num_points"), _len_minus(ent["num_intervals"], "num_intervals")
    pc = next((s for s in fn.body if isinstance(s, ast.AnnAssign) and ast.unparse(s.target) == "pos_cache"), None)
    v = pc.value if pc is not None else None
    if not (isinstance(v, ast.Call) and ast.unparse(v.func) == "defaultdict" and len(v.args) == 1 and isinstance(v.args[0], ast.Lambda) and not v.args[0].args.args and isinstance(v.args[0].body, ast.Constant)):
        raise P.Untranslatable("scan_nd: pos_cache initialisation not recognised")
    init = v.args[0].body.value
    if init is None:
        init_lean = "none"
    elif isinstance(init, int) and not isinstance(init, bool):
        init_lean = f"some ({init} : Rat)"
    else:
        raise P.Untranslatable(f"scan_nd: pos_cache default {init!r}")
    loop = next((s for s in ast.walk(fn) if isinstance(s, ast.For) and ast.unparse(s.iter) == "list(cycler)"), None)
    if loop is None or [ast.unparse(x) for x in loop.body] != ["yield from per_step(detectors, step, pos_cache)"]:
        raise P.Untranslatable("scan_nd: per-step loop not recognised")
    st = ast.parse((C.SRC / "plan_stubs.py").read_text())
    for name, want in (("move_per_step", MOVE_PER_STEP), ("one_nd_step", ONE_ND_STEP)):
        f = next((n for n in st.body if isinstance(n, ast.FunctionDef) and n.name == name), None)
        if f is None:
            raise P.Untranslatable(f"{name} not found")
        have = [ast.unparse(x) for x in P.body_wo_doc(f)]
        if have != want:
            raise P.Untranslatable(f"{name} body changed: {have}")
    facts.update({"pos_cache_default": repr(init), "num_points": f"len(cycler) - {a}", "num_intervals": f"len(cycler) - {b}", "scan_nd_at": f"plans.py:{fn.lineno}"})
    out = [
        "-- GENERATED by harness/props/C25.py from src/bluesky/plans.py (scan_nd) -- do not edit.",
        "namespace BlueskyVerif.Pure.StepScan.Gen",
        "",
        "/-- `pos_cache = defaultdict(lambda: <this>)` -/",
        f"def cacheInit : Option Rat := {init_lean}",
        "/-- `\"num_points\": len(cycler) - A`: A -/",
        f"def numPointsMinus : Nat := {a}",
        "/-- `\"num_intervals\": len(cycler) - B`: B -/",
        f"def numIntervalsMinus : Nat := {b}",
        "",
        "end BlueskyVerif.Pure.StepScan.Gen",
        "",
    ]
    C.write_if_changed(GEN_PATH, "\n".join(out))
    return facts


# ----------------------------------------------------------------------------- helpers
def F(x):
    return Fraction(x)


def jr(x):
    f = Fraction(x)
    return [f.numerator, f.denominator]


def fr(j):
    return Fraction(j[0], j[1])


def lin(start, stop, num):
    start, stop = Fraction(start), Fraction(stop)
    if num == 1:
        return [start]
    return [start + i * (stop - start) / (num - 1) for i in range(num)]


def _is_pow2(k):
    return k >= 1 and (k & (k - 1)) == 0


def _exact_num(num):
    return num == 1 or _is_pow2(num - 1)


def doc_grid(axis_positions, flags):
    """Row-major outer product with the requested snaking, as an odometer: the fastest axis that can
    still move moves one step; every faster axis either restarts (unsnaked) or turns around (snaked)."""
    n = len(axis_positions)
    L = [len(a) for a in axis_positions]
    idx = [0] * n
    direction = [1] * n
    out = []
    while True:
        out.append([axis_positions[i][idx[i]] for i in range(n)])
        k = n - 1
        while k >= 0:
            nxt = idx[k] + (direction[k] if flags[k] else 1)
            if 0 <= nxt < L[k]:
                break
            k -= 1
        if k < 0:
            return out
        idx[k] += direction[k] if flags[k] else 1
        for j in range(k + 1, n):
            if flags[j]:
                direction[j] = -direction[j]
            else:
                idx[j] = 0


# ----------------------------------------------------------------------------- implementation side
def consume(plan):
    msgs = []
    resp = None
    while True:
        try:
            msg = plan.send(resp)
        except StopIteration:
            return msgs
        msgs.append(msg)
        resp = msg.obj.read() if msg.command == "read" else None


def canon(msgs):
    """-> (canonical message list, open_run kwargs).  Positions as exact fractions of the floats."""
    out = []
    md = None
    set_grp = trig_grp = None
    closed = False
    sets_since_cp = 0
    stage_block = []

    def flush():
        nonlocal stage_block
        if stage_block:
            kind = stage_block[0][0]
            names = sorted(stage_block, key=lambda m: (m[1][0] != "d", m[1]))
            out.extend(names if kind == "stage" else names[::-1])
            stage_block = []

    for m in msgs:
        c = m.command
        if c in ("stage", "unstage"):
            if stage_block and stage_block[0][0] != c:
                flush()
            stage_block.append([c, m.obj.name])
            continue
        flush()
        if c == "open_run":
            md = dict(m.kwargs)
            out.append(["open_run"])
        elif c == "close_run":
            closed = True
            out.append(["close_run"])
        elif c == "checkpoint":
            sets_since_cp = 0
            set_grp = trig_grp = None
            out.append(["checkpoint"])
        elif c == "set":
            set_grp = m.kwargs.get("group")
            sets_since_cp += 1
            out.append(["set", m.obj.name, jr(float(m.args[0])), "reset" if closed else "sets"])
        elif c == "trigger":
            trig_grp = m.kwargs.get("group")
            out.append(["trigger", m.obj.name])
        elif c == "wait":
            g = m.kwargs.get("group")
            if set_grp is not None and g == set_grp:
                lab = "reset" if closed else "sets"
                set_grp = None
            elif trig_grp is not None and g == trig_grp:
                lab = "triggers"
            elif sets_since_cp == 0 and trig_grp is None and not closed and str(g).startswith("set-"):
                lab = "sets"  # nothing had to move at this point
            else:
                lab = "unmatched"
            out.append(["wait", lab])
        elif c in ("create", "save"):
            out.append([c])
        elif c == "read":
            out.append(["read", m.obj.name])
        else:
            out.append([c, getattr(m.obj, "name", None)])
    flush()
    return out, md


def canon_md(md):
    def ext(e):
        return [[jr(float(a)), jr(float(b))] for a, b in e]

    return {
        "num_points": md.get("num_points"),
        "num_intervals": md.get("num_intervals"),
        "shape": list(md["shape"]) if "shape" in md else None,
        "extents": ext(md["extents"]) if "extents" in md else None,
        "snaking": [bool(b) for b in md["snaking"]] if "snaking" in md else None,
    }


def build(case):
    """-> the real plan generator for a case."""
    import bluesky.plans as bp

    dets = [FakeDetector(f"d{i}") if t else _NoTrig(f"d{i}") for i, t in enumerate(case["dets"])]
    p = case["plan"]
    fl = lambda r: float(fr(r))  # noqa: E731
    if p in ("scan", "inner_product_scan"):
        motors = [FakeMotor(f"m{i}", 0.0) for i in range(len(case["args"]))]
        args = []
        for m, (a, b) in zip(motors, case["args"]):
            args += [m, fl(a), fl(b)]
        if p == "scan":
            if case.get("num_positional"):
                return bp.scan(dets, *args, case["num"])
            return bp.scan(dets, *args, num=case["num"])
        return bp.inner_product_scan(dets, case["num"], *args)
    if p == "list_scan":
        motors = [FakeMotor(f"m{i}", 0.0) for i in range(len(case["lists"]))]
        args = []
        for m, l in zip(motors, case["lists"]):
            args += [m, [fl(x) for x in l]]
        return bp.list_scan(dets, *args)
    if p == "scan_nd":
        from cycler import cycler

        motors = [FakeMotor(f"m{i}", 0.0) for i in range(len(case["cols"]))]
        cyc = None
        for m, col in zip(motors, case["cols"]):
            c = cycler(m, [fl(x) for x in col])
            cyc = c if cyc is None else cyc + c
        return bp.scan_nd(dets, cyc)
    if p == "grid_scan":
        motors = [FakeMotor(f"m{i}", 0.0) for i in range(len(case["axes"]))]
        req = case["req"]
        args = []
        for i, (m, (a, b, n)) in enumerate(zip(motors, case["axes"])):
            args += [m, fl(a), fl(b), n]
            if req["kind"] == "inargs" and i > 0:
                args.append(bool(req["snakes"][i - 1]))
        kw = {}
        if req["kind"] == "off":
            kw["snake_axes"] = False
        elif req["kind"] == "all":
            kw["snake_axes"] = True
        elif req["kind"] == "these":
            kw["snake_axes"] = [motors[i] if i < len(motors) else FakeMotor("stranger") for i in req["motors"]]
        return bp.grid_scan(dets, *args, **kw)
    if p == "list_grid_scan":
        motors = [FakeMotor(f"m{i}", 0.0) for i in range(len(case["lists"]))]
        args = []
        for m, l in zip(motors, case["lists"]):
            args += [m, [fl(x) for x in l]]
        sa = case["snake_axes"]
        if isinstance(sa, list):
            sa = [motors[i] for i in sa]
        return bp.list_grid_scan(dets, *args, snake_axes=sa)
    if p == "x2x_scan":
        m0, m1 = FakeMotor("m0", fl(case["init"][0])), FakeMotor("m1", fl(case["init"][1]))
        return bp.x2x_scan(dets, m0, m1, fl(case["start"]), fl(case["stop"]), case["num"])
    if p == "log_scan":
        return bp.log_scan(dets, FakeMotor("m0", 0.0), fl(case["start"]), fl(case["stop"]), case["num"])
    raise ValueError("bad plan " + p)


class _NoTrig:
    """a readable detector without a trigger method"""

    parent = None
    hints: dict = {}

    def __init__(self, name):
        self.name = name

    def __repr__(self):
        return f"_NoTrig({self.name})"

    def read(self):
        return {self.name: {"value": 1.0, "timestamp": 0.0}}

    def describe(self):
        return {self.name: {"source": "fake", "dtype": "number", "shape": []}}

    def read_configuration(self):
        return {}

    def describe_configuration(self):
        return {}


def run_impl(case):
    import warnings

    try:
        with warnings.catch_warnings():
            warnings.simplefilter("ignore")
            msgs = consume(build(case))
    except ValueError:
        return {"res": "ValueError"}
    except TypeError:
        return {"res": "TypeError"}
    except RuntimeError:  # e.g. cycler() refusing an empty list inside a generator (StopIteration -> RuntimeError)
        return {"res": "RuntimeError"}
    cm, md = canon(msgs)
    if md is None:
        return {"res": "no-open_run"}
    return {"res": "ok", "msgs": cm, "md": canon_md(md)}


def lean_req(case):
    """The request for the Lean driver (log_scan: the logspace values are passed as a parameter)."""
    if case["plan"] == "log_scan":
        import numpy as np

        steps = np.logspace(float(fr(case["start"])), float(fr(case["stop"])), case["num"])
        return json.dumps({"plan": "log_scan", "dets": case["dets"], "steps": [jr(float(s)) for s in steps], "num": case["num"]})
    c = dict(case)
    if c["plan"] == "inner_product_scan":
        c["plan"] = "scan"
    return json.dumps(c)


# ----------------------------------------------------------------------------- documented behaviour (oracle)
def strict(case):
    """numpy's arithmetic is exact on this input (so positions are compared exactly)."""
    p = case["plan"]
    if p in ("list_scan", "list_grid_scan", "scan_nd"):
        return True
    if p in ("scan", "inner_product_scan", "x2x_scan"):
        return _exact_num(case["num"])
    if p == "grid_scan":
        return all(_exact_num(n) for _, _, n in case["axes"])
    return False  # log_scan


def grid_req_flags(case):
    n = len(case["axes"])
    req = case["req"]
    k = req["kind"]
    if k in ("default", "off"):
        return [False] * n
    if k == "all":
        return [i != 0 for i in range(n)]
    if k == "these":
        return [i != 0 and i in req["motors"] for i in range(n)]
    return [False] + [bool(b) for b in req["snakes"]]


def documented(case):
    """-> None if the documentation makes the call invalid, else dict(traj=[{motor: Fraction}], md expectations)."""
    p = case["plan"]
    if p in ("scan", "inner_product_scan"):
        if case["num"] < 1 or not case["args"]:
            return None
        cols = [lin(fr(a), fr(b), case["num"]) for a, b in case["args"]]
        traj = [{f"m{j}": cols[j][k] for j in range(len(cols))} for k in range(case["num"])]
        return {"traj": traj, "num_points": case["num"]}
    if p in ("list_scan", "scan_nd"):
        lists = case["lists"] if p == "list_scan" else case["cols"]
        if not lists or len({len(l) for l in lists}) != 1 or not lists[0]:
            return None
        traj = [{f"m{j}": fr(lists[j][k]) for j in range(len(lists))} for k in range(len(lists[0]))]
        return {"traj": traj, "num_points": len(lists[0])}
    if p == "grid_scan":
        req = case["req"]
        n = len(case["axes"])
        if n == 0 or any(num < 1 for _, _, num in case["axes"]):
            return None
        if req["kind"] == "these" and (0 in req["motors"] or len(set(req["motors"])) != len(req["motors"]) or any(m >= n for m in req["motors"])):
            return None
        if req["kind"] == "inargs" and len(req["snakes"]) != n - 1:
            return None
        flags = grid_req_flags(case)
        axes = [lin(fr(a), fr(b), num) for a, b, num in case["axes"]]
        traj = [{f"m{j}": pt[j] for j in range(n)} for pt in doc_grid(axes, flags)]
        return {
            "traj": traj,
            "num_points": math.prod(num for _, _, num in case["axes"]),
            "shape": [num for _, _, num in case["axes"]],
            "extents": [[fr(a), fr(b)] for a, b, _ in case["axes"]],
            "snaking": flags,
        }
    if p == "list_grid_scan":
        lists = [[fr(x) for x in l] for l in case["lists"]]
        n = len(lists)
        if n == 0 or any(not l for l in lists):
            return None
        sa = case["snake_axes"]
        flags = [False] * n if not sa else ([i != 0 for i in range(n)] if sa is True else [i != 0 and i in sa for i in range(n)])
        traj = [{f"m{j}": pt[j] for j in range(n)} for pt in doc_grid(lists, flags)]
        return {"traj": traj, "num_points": math.prod(len(l) for l in lists), "shape": [len(l) for l in lists], "extents": [[min(l), max(l)] for l in lists]}
    if p == "x2x_scan":
        if case["num"] < 1:
            return None
        i0, i1 = fr(case["init"][0]), fr(case["init"][1])
        a, b = fr(case["start"]), fr(case["stop"])
        c0 = [i0 + x for x in lin(a, b, case["num"])]
        c1 = [i1 + x for x in lin(a / 2, b / 2, case["num"])]
        return {"traj": [{"m0": x, "m1": y} for x, y in zip(c0, c1)], "num_points": case["num"], "final": {"m0": i0, "m1": i1}}
    if p == "log_scan":
        if case["num"] < 1:
            return None
        return {"traj": None, "num_points": case["num"]}
    return None


def block_ok(block, dets):
    """checkpoint, set*, wait(sets), trigger*, [wait(triggers)], create, read*, save -- and every
    detector and every scanned motor read (`dets` lists both)."""
    st = 0
    reads = []
    for m in block:
        c = m[0]
        if st == 0 and c == "checkpoint":
            st = 1
        elif st == 1 and c == "set" and m[3] == "sets":
            pass
        elif st == 1 and m == ["wait", "sets"]:
            st = 2
        elif st == 2 and c == "trigger":
            pass
        elif st == 2 and m == ["wait", "triggers"]:
            st = 3
        elif st in (2, 3) and c == "create":
            st = 4
        elif st == 4 and c == "read":
            reads.append(m[1])
        elif st == 4 and c == "save":
            st = 5
        else:
            return False
    return st == 5 and all(d in reads for d in dets)


TOL = Fraction(1, 10**9)


def oracle(case, obs):
    """C25 on what the implementation emitted.  -> [(sig, what)]"""
    doc = documented(case)
    p = case["plan"]
    if doc is None:
        return []
    if obs["res"] != "ok":
        return [(f"{p}:valid-input-fails:{obs['res']}", f"valid call gives {obs['res']}")]
    msgs, md = obs["msgs"], obs["md"]
    bad = []
    cls = f"{p}:motors={len(case.get('args') or case.get('lists') or case.get('cols') or case.get('axes') or [0, 0][: 2 if p == 'x2x_scan' else 1])}"
    dets = [f"d{i}" for i in range(len(case["dets"]))]
    if doc["traj"]:
        dets = dets + sorted(doc["traj"][0].keys())
    elif p == "log_scan":
        dets = dets + ["m0"]
    try:
        i0, i1 = msgs.index(["open_run"]), msgs.index(["close_run"])
    except ValueError:
        return [(f"{cls}:no-run", "open_run / close_run missing")]
    body = msgs[i0 + 1 : i1]
    # (b) one checkpointed reading per point
    blocks = []
    for m in body:
        if m == ["checkpoint"] or not blocks:
            blocks.append([])
        blocks[-1].append(m)
    npts = doc["num_points"]
    if len(blocks) != npts or sum(1 for m in body if m == ["save"]) != npts:
        bad.append((f"{cls}:number-of-readings", f"{len(blocks)} checkpointed blocks / {sum(1 for m in body if m == ['save'])} saves for {npts} documented points"))
        return bad
    for k, b in enumerate(blocks):
        if not block_ok(b, dets):
            bad.append((f"{cls}:point-block-shape", f"point {k}: messages {b[:12]} are not checkpoint, sets, wait(sets), triggers, [wait], create, reads, save"))
            return bad
    # (a) effective positions at every save == documented trajectory
    pos = {}
    k = 0
    exact = strict(case)
    for m in msgs[: i1 + 1]:
        if m[0] == "set":
            pos[m[1]] = fr(m[2])
        elif m == ["save"]:
            if doc["traj"] is not None:
                want = doc["traj"][k]
                for mot, w in want.items():
                    have = pos.get(mot)
                    okp = have is not None and (have == w if exact else abs(have - w) <= TOL * max(1, abs(w)))
                    if not okp:
                        why = "never set" if have is None else f"at {float(have)!r}"
                        kind = "move-skipped" if have is None or any(have == t[mot] for t in doc["traj"][:k]) else "wrong-position"
                        bad.append((f"{cls}:{kind}{'' if exact else ':tolerance'}", f"point {k}: motor {mot} {why}, documented position {float(w)!r} (={w})"))
                        return bad
            k += 1
    if "final" in doc:
        for m in msgs[i1:]:
            if m[0] == "set":
                pos[m[1]] = fr(m[2])
        for mot, w in doc["final"].items():
            if pos.get(mot) != w:
                bad.append((f"{cls}:not-returned", f"motor {mot} left at {pos.get(mot)} instead of its initial position {w}"))
    # (c) metadata
    if md["num_points"] != npts:
        bad.append((f"{cls}:md-num_points", f"num_points={md['num_points']} but {npts} points are visited"))
    if md["num_intervals"] != npts - 1:
        bad.append((f"{cls}:md-num_intervals", f"num_intervals={md['num_intervals']} for {npts} points"))
    if "shape" in doc:
        if md["shape"] != doc["shape"] or math.prod(md["shape"]) != npts:
            bad.append((f"{cls}:md-shape", f"shape={md['shape']} but the grid visited is {doc['shape']} ({npts} points)"))
        ext = None if md["extents"] is None else [[fr(a), fr(b)] for a, b in md["extents"]]
        if ext != doc["extents"]:
            bad.append((f"{cls}:md-extents", f"extents={ext} documented {doc['extents']}"))
        elif doc["traj"]:
            for j, (a, b) in enumerate(ext):
                vis = [t[f"m{j}"] for t in doc["traj"]]
                lo, hi = min(a, b), max(a, b)
                inside = all(lo - TOL <= v <= hi + TOL for v in vis)
                if not inside:
                    bad.append((f"{cls}:md-extents", f"axis {j} leaves its recorded extents {a}..{b}"))
    if "snaking" in doc and md["snaking"] != doc["snaking"]:
        bad.append((f"{cls}:md-snaking", f"snaking={md['snaking']} requested {doc['snaking']}"))
    return bad


# ----------------------------------------------------------------------------- cases
DY = [Fraction(k, 4) for k in range(-12, 13)]


def _dy(rng):
    return rng.choice(DY)


def _dets(rng):
    return [rng.random() < 0.7 for _ in range(rng.choice([0, 1, 1, 2, 3]))]


def _num(rng, exact):
    return rng.choice([1, 2, 3, 5, 9, 17] if exact else [4, 6, 7, 8, 10, 11])


def gen_case(rng):
    exact = rng.random() < 0.8
    kind = rng.choice(["scan", "scan", "inner_product_scan", "list_scan", "scan_nd", "grid_scan", "grid_scan", "grid_scan", "list_grid_scan", "list_grid_scan", "x2x_scan", "log_scan"])
    dets = _dets(rng)
    if kind in ("scan", "inner_product_scan"):
        n = rng.choice([1, 1, 2, 3, 4])
        args = []
        for _ in range(n):
            a = _dy(rng)
            b = a if rng.random() < 0.2 else _dy(rng)  # start == stop: the motor never has to move again
            args.append([jr(a), jr(b)])
        c = {"plan": kind, "dets": dets, "args": args, "num": _num(rng, exact)}
        if kind == "scan" and rng.random() < 0.3:
            c["num_positional"] = True
        return c
    if kind in ("list_scan", "scan_nd"):
        n = rng.choice([1, 2, 3])
        L = rng.choice([1, 2, 3, 4, 6])
        pool = rng.sample(DY, 3)  # few distinct values: repeated positions exercise pos_cache
        lists = [[jr(rng.choice(pool)) for _ in range(L)] for _ in range(n)]
        return {"plan": kind, "dets": dets, ("lists" if kind == "list_scan" else "cols"): lists}
    if kind == "grid_scan":
        n = rng.choice([1, 2, 2, 3, 3, 4])
        axes = []
        tot = 1
        for _ in range(n):
            num = rng.choice([1, 2, 3, 5] if exact else [2, 3, 4, 6])
            if tot * num > 150:
                num = 1
            tot *= num
            a = _dy(rng)
            b = a if rng.random() < 0.1 else _dy(rng)
            axes.append([jr(a), jr(b), num])
        r = rng.random()
        if r < 0.15:
            req = {"kind": "default"}
        elif r < 0.25:
            req = {"kind": "off"}
        elif r < 0.5:
            req = {"kind": "all"}
        elif r < 0.75:
            req = {"kind": "these", "motors": sorted(rng.sample(range(1, n), rng.randint(0, n - 1))) if n > 1 else []}
        else:
            req = {"kind": "inargs", "snakes": [rng.random() < 0.6 for _ in range(n - 1)]} if n > 1 else {"kind": "default"}
        return {"plan": "grid_scan", "dets": dets, "axes": axes, "req": req}
    if kind == "list_grid_scan":
        n = rng.choice([1, 2, 2, 3, 3, 4])
        lists = []
        tot = 1
        for _ in range(n):
            L = rng.choice([1, 2, 3, 4])
            if tot * L > 150:
                L = 1
            tot *= L
            pool = rng.sample(DY, 3)
            lists.append([jr(rng.choice(pool)) for _ in range(L)])
        r = rng.random()
        sa = False if r < 0.2 else (True if r < 0.5 else sorted(rng.sample(range(n), rng.randint(1, n))))
        return {"plan": "list_grid_scan", "dets": dets, "lists": lists, "snake_axes": sa}
    if kind == "x2x_scan":
        return {"plan": "x2x_scan", "dets": dets, "init": [jr(_dy(rng)), jr(_dy(rng))], "start": jr(_dy(rng)), "stop": jr(_dy(rng)), "num": _num(rng, exact)}
    return {"plan": "log_scan", "dets": dets, "start": jr(rng.choice([0, 1, -1, Fraction(1, 2)])), "stop": jr(rng.choice([1, 2, 3, 0])), "num": rng.choice([1, 2, 3, 4, 5])}


def exhaustive_cases(thorough):
    """Small scopes enumerated completely."""
    vals = [Fraction(0), Fraction(1), Fraction(-1, 2)]
    nums = [1, 2, 3, 5] if thorough else [1, 2, 3]
    # scan: 1-2 motors x start/stop in vals x num
    for n in (1, 2):
        for ends in itertools.product(itertools.product(vals, vals), repeat=n):
            for num in nums:
                yield {"plan": "scan", "dets": [True], "args": [[jr(a), jr(b)] for a, b in ends], "num": num}
    # grid_scan: <= 3 axes, nums in {1,2,3}, every way of requesting snaking
    for n in (1, 2, 3):
        for shape in itertools.product([1, 2, 3], repeat=n):
            if not thorough and n == 3 and 3 in shape[:2]:
                continue
            axes = [[jr(0), jr(j + 1), num] for j, num in enumerate(shape)]
            reqs = [{"kind": "default"}, {"kind": "off"}, {"kind": "all"}]
            for k in range(0, n):
                for sub in itertools.combinations(range(1, n), k):
                    reqs.append({"kind": "these", "motors": list(sub)})
            if n > 1:
                for sn in itertools.product([False, True], repeat=n - 1):
                    reqs.append({"kind": "inargs", "snakes": list(sn)})
            for req in reqs:
                yield {"plan": "grid_scan", "dets": [True], "axes": axes, "req": req}
    # list_grid_scan with repeated positions
    for n in (1, 2, 3):
        for shape in itertools.product([1, 2, 3], repeat=n):
            if not thorough and n == 3:
                continue
            lists = [[jr(v) for v in ([0, 1, 0][:L])] for L in shape]
            for sa in [False, True] + [list(s) for k in range(1, n + 1) for s in itertools.combinations(range(n), k)]:
                yield {"plan": "list_grid_scan", "dets": [], "lists": lists, "snake_axes": sa}
    # list_scan / scan_nd: every sequence of length <= 3 (4) over two values, two motors: all cache hit/miss patterns
    for L in range(1, 5 if thorough else 4):
        for seq in itertools.product([0, 1], repeat=L):
            for seq2 in itertools.product([0, 1], repeat=L):
                yield {"plan": "list_scan", "dets": [True], "lists": [[jr(v) for v in seq], [jr(v) for v in seq2]]}
    for num in nums:
        for a, b in itertools.product(vals, vals):
            yield {"plan": "x2x_scan", "dets": [True], "init": [jr(1), jr(Fraction(1, 2))], "start": jr(a), "stop": jr(b), "num": num}


def malformed_cases(rng, k):
    yield {"plan": "scan", "dets": [True], "args": [[jr(0), jr(1)]], "num": 0}
    yield {"plan": "scan", "dets": [True], "args": [], "num": 3}
    yield {"plan": "list_scan", "dets": [], "lists": [[jr(0), jr(1)], [jr(0)]]}
    yield {"plan": "grid_scan", "dets": [True], "axes": [[jr(0), jr(1), 2], [jr(0), jr(1), 2]], "req": {"kind": "these", "motors": [0]}}
    yield {"plan": "grid_scan", "dets": [True], "axes": [[jr(0), jr(1), 2], [jr(0), jr(1), 2]], "req": {"kind": "these", "motors": [1, 1]}}
    yield {"plan": "grid_scan", "dets": [True], "axes": [[jr(0), jr(1), 2], [jr(0), jr(1), 2]], "req": {"kind": "these", "motors": [5]}}
    for _ in range(k):
        n = rng.choice([2, 3])
        lens = [rng.choice([1, 2, 3]) for _ in range(n)]
        if len(set(lens)) == 1:
            lens[0] += 1
        yield {"plan": "list_scan", "dets": _dets(rng), "lists": [[jr(_dy(rng)) for _ in range(L)] for L in lens]}


def _cases(ctx):
    corpus = C.VERIF / "corpus" / "C25"
    if corpus.exists():
        for f in sorted(corpus.glob("*.json")):
            yield json.loads(f.read_text())["case"]
    thorough = ctx.tier == "thorough" or ctx.deep
    yield from exhaustive_cases(thorough)
    yield from malformed_cases(ctx.rng, ctx.budget(5, 40))
    for _ in range(ctx.budget(300, 4000)):
        yield gen_case(ctx.rng)


def _nontrivial(case, obs):
    if obs["res"] != "ok":
        return True
    npts = sum(1 for m in obs["msgs"] if m == ["save"])
    nsets = sum(1 for m in obs["msgs"] if m[0] == "set" and m[3] == "sets")
    nm = len({m[1] for m in obs["msgs"] if m[0] == "set"})
    return npts > 1 and nsets < npts * nm  # some move was skipped thanks to pos_cache


def _cmp(case, model, obs):
    """None if model and implementation agree (exactly on strict inputs, skeleton + tolerance otherwise)."""
    if model.get("res") != obs.get("res"):
        return "res"
    if obs["res"] != "ok":
        return None
    if strict(case) or case["plan"] == "log_scan":
        if model["msgs"] != obs["msgs"]:
            return "msgs"
        if model["md"] != obs["md"]:
            return "md"
        return None
    if len(model["msgs"]) != len(obs["msgs"]):
        return "msgs-length"
    for a, b in zip(model["msgs"], obs["msgs"]):
        if a[0] == "set" and b[0] == "set":
            if a[1] != b[1] or a[3] != b[3] or abs(fr(a[2]) - fr(b[2])) > TOL * max(1, abs(fr(a[2]))):
                return "msgs-set"
        elif a != b:
            return "msgs"
    ma, mb = dict(model["md"]), dict(obs["md"])
    if ma != mb:
        return "md"
    return None


def _short(o):
    if isinstance(o, dict) and "msgs" in o and len(o["msgs"]) > 60:
        return {**o, "msgs": o["msgs"][:60] + ["..."]}
    return o


def run(ctx, model=True):
    res = C.Result(
        rule="cases = corpus + exhaustive small scopes (scan 1-2 motors x 3 start/stop values x num; grid_scan <=3 axes x "
        "nums<=3 x every snaking request incl. the deprecated in-args pattern; list_grid_scan with repeated positions; "
        "list_scan over all 0/1 sequences of 2 motors; x2x_scan) + malformed (num=0, no motors, unequal lists, bad "
        "snake_axes) + random (<=4 motors, <=150 points, 0-3 detectors with/without trigger, 80% inputs where numpy "
        "linspace is exact); non-trivial = a rejected call, or a scan in which pos_cache suppressed at least one set"
    )
    res.exhaustive = True
    cases, obss = [], []
    for case in _cases(ctx):
        obs = run_impl(case)
        cases.append(case)
        obss.append(obs)
        res.seen(case, _nontrivial(case, obs))
        res.count(case["plan"])
        res.count("res:" + obs["res"])
        res.count("strict" if strict(case) else "tolerance")
        for sig, what in oracle(case, obs):
            res.violations.append(C.Violation(sig, what, case))
    res.violations.sort(key=lambda v: len(json.dumps(v.case)))
    if model:
        replies = C.lean_batch(DRIVER, [lean_req(c) for c in cases])
        for case, obs, rep in zip(cases, obss, replies):
            m = json.loads(rep)
            why = _cmp(case, m, obs)
            if why:
                res.disagreements.append({"case": case, "differs_in": why, "model": _short(m), "impl": _short(obs)})
        small = [i for i, o in enumerate(obss) if o["res"] == "ok" and 20 <= len(o["msgs"]) <= 45 and _nontrivial(cases[i], o)]
        for i in small[:1] + small[len(small) // 2 : len(small) // 2 + 1] + small[-1:]:
            res.samples.append({"case": cases[i], "impl": obss[i], "model": json.loads(replies[i])})
    else:
        res.samples.append({"case": cases[-1], "impl": _short(obss[-1])})
    return res


def run_impl_only(ctx):
    return run(ctx, model=False)


def replay(ctx, data):
    res = C.Result()
    case = data.get("case")
    if not case:
        return res
    obs = run_impl(case)
    for sig, what in oracle(case, obs):
        res.violations.append(C.Violation(sig, what, case))
    return res
