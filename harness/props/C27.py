"""C27 -- spiral / spiral_fermat stay inside the requested rectangle; spiral_square_pattern visits
every point of the x_num x y_num grid exactly once.

Tie:
 (T) Part A: the bounds test, the half ranges, the aspect ratio and the emitted point of `spiral`
     and `spiral_fermat` are translated from the current plan_patterns.py into
     lean/BlueskyVerif/Pure/SpiralGenerated.lean (exact rationals stand in for floats); the
     extractor also checks that the only `append`s of the function sit under that test.
     Part B: the offsets, ring range, the four side guards, the four `range()` bounds, the inner
     guards, the count guards and the emitted grid multipliers of `spiral_square_pattern` are
     translated (half-integers scaled by 2) into lean/BlueskyVerif/Pure/SpiralSquareGenerated.lean.
     Props/C27.lean proves the property about these generated definitions.
 (C) the hand-written loop skeletons (Pure/Spiral.lean: filter + shift; Pure/SpiralSquare.lean:
     rings -> 4 sides -> inner loop with the running counter) are run against the real functions
     on the same inputs (exhaustive sizes for the square spiral, exact Fraction inputs).
"""
from __future__ import annotations

import ast
import json
import math
import warnings
from fractions import Fraction

import common as C
import pyexpr as P

MANIFEST = {
    "text": "FULL. spiral and spiral_fermat: every emitted point lies in the requested rectangle (|y - y_start| <= y_range/2 and "
    "|x'| <= x_range/2 in the sheared frame the tilt defines), for ALL candidate lists, all tilts and all rational parameters "
    "with dr, dr_y > 0 -- theorem over the bounds test / half ranges / dr_aspect / emitted point re-extracted from the source. "
    "spiral_square_pattern: for ALL x_num, y_num >= 2 the produced sequence, read as grid indices, is a permutation of the "
    "x_num x y_num grid (every grid point exactly once; ring-by-ring proof over the extracted guards and range() bounds, no "
    "enumeration of sizes) and every physical coordinate is the linspace point of its grid index. Size 1 raises "
    "ZeroDivisionError (modelled), sizes <= 0 are outside the property.",
    "note": "Trusted: Lean kernel; the C27 extractor (AST -> Lean for arithmetic/abs/comparison expressions, shape checks of "
    "the three functions); exact rationals for IEEE doubles (cos/sin values are arbitrary candidates, float rounding is "
    "covered only by the correspondence run with 1e-9 tolerance, boundary candidates counted separately); cycler "
    "(by_key) behaviour; the hand-written loop skeletons are tied by the correspondence run.",
    "technique": "Lean 4 proof over source-translated guards (translator) + correspondence run incl. exhaustive grid sizes",
}
LEAN_MODULES = ["BlueskyVerif.Props.C27"]
DRIVER_MODULES = ["BlueskyVerif.Pure.Spiral", "BlueskyVerif.Pure.SpiralSquare"]
DRIVER = "Drivers/C27.lean"
ASSUMPTIONS = [
    "floats are modelled by exact rationals; candidates (radius*cos, radius*sin*dr_aspect) are arbitrary rationals",
    "dr > 0, dr_y > 0 (dr_aspect > 0), tilt_tan != 0 (tilt != -pi/2 exactly), no NaN/inf inputs",
    "tilted rectangle = the sheared frame the code tests in: x' = dx - (dy/dr_aspect)/tan(tilt + pi/2) = dx + (dy/dr_aspect)*tan(tilt)",
    "spiral_square_pattern: x_num, y_num are Python ints >= 2; inputs the function rejects or that are not a grid are outside the "
    "domain: x_num == 1 or y_num == 1 raises ZeroDivisionError, sizes <= 0 return the single first point (model and implementation "
    "are still compared there, the oracle is not evaluated)",
    "spiral / spiral_fermat raise StopIteration (cycler `+=` on an empty cycler) when no candidate passes the test: no points, "
    "nothing to check (the model reports the same)",
]
TRUSTED = ["harness/props/C27.py translation of arithmetic/abs/comparison expressions and its statement-shape checks"]

SRC_FILE = "plan_patterns.py"
Unx = P.Untranslatable

# ============================================================================= translator helpers


def _fn(tree, name) -> ast.FunctionDef:
    for n in tree.body:
        if isinstance(n, ast.FunctionDef) and n.name == name:
            return n
    raise Unx(f"function {name} not found")


def _names(node) -> set[str]:
    return {n.id for n in ast.walk(node) if isinstance(n, ast.Name)}


def _is_call(n, fname, nargs=None):
    return isinstance(n, ast.Call) and P.dotted(n.func) == fname and not n.keywords and (nargs is None or len(n.args) == nargs)


def rat(n, env) -> str:
    """arithmetic expression over exact rationals"""
    if isinstance(n, ast.Constant) and isinstance(n.value, (int, float)) and not isinstance(n.value, bool):
        if float(n.value) != int(n.value):
            raise Unx(f"non-integral constant {n.value}")
        return f"({int(n.value)} : Rat)"
    if isinstance(n, ast.Name) and n.id in env:
        return env[n.id]
    if isinstance(n, ast.UnaryOp) and isinstance(n.op, ast.USub):
        return f"(-{rat(n.operand, env)})"
    if isinstance(n, ast.BinOp) and type(n.op) in (ast.Add, ast.Sub, ast.Mult, ast.Div):
        s = {ast.Add: "+", ast.Sub: "-", ast.Mult: "*", ast.Div: "/"}[type(n.op)]
        return f"({rat(n.left, env)} {s} {rat(n.right, env)})"
    if _is_call(n, "abs", 1):
        return f"(rabs {rat(n.args[0], env)})"
    raise Unx("rat: " + ast.dump(n)[:160])


def rat_bool(n, env) -> str:
    if isinstance(n, ast.BoolOp) and isinstance(n.op, ast.And):
        return "(" + " && ".join(rat_bool(v, env) for v in n.values) + ")"
    if isinstance(n, ast.Compare) and len(n.ops) == 1 and type(n.ops[0]) in (ast.Lt, ast.LtE, ast.Gt, ast.GtE):
        return f"decide ({rat(n.left, env)} {P.CMP[type(n.ops[0])]} {rat(n.comparators[0], env)})"
    raise Unx("rat_bool: " + ast.dump(n)[:160])


def once(n, env) -> str:
    """integer expression, unscaled"""
    if isinstance(n, ast.Constant) and isinstance(n.value, int) and not isinstance(n.value, bool):
        return f"({n.value} : Int)"
    if isinstance(n, ast.Name) and n.id in env:
        return env[n.id]
    if isinstance(n, ast.UnaryOp) and isinstance(n.op, ast.USub):
        return f"(-{once(n.operand, env)})"
    if isinstance(n, ast.BinOp) and type(n.op) in (ast.Add, ast.Sub, ast.Mult):
        s = {ast.Add: "+", ast.Sub: "-", ast.Mult: "*"}[type(n.op)]
        return f"({once(n.left, env)} {s} {once(n.right, env)})"
    raise Unx("once: " + ast.dump(n)[:160])


def twice(n, env, env2) -> str:
    """Lean Int term for 2*e, where e may mention the half-integer offsets (env2 maps them to their doubled names)
    and `<int expr> / 2`."""
    if isinstance(n, ast.Constant) and isinstance(n.value, (int, float)) and not isinstance(n.value, bool):
        if float(2 * n.value) != int(2 * n.value):
            raise Unx(f"constant {n.value} is not a half-integer")
        return f"({int(2 * n.value)} : Int)"
    if isinstance(n, ast.Name) and n.id in env2:
        return env2[n.id]
    if isinstance(n, ast.Name) and n.id in env:
        return f"(2 * {env[n.id]})"
    if isinstance(n, ast.UnaryOp) and isinstance(n.op, ast.USub):
        return f"(-{twice(n.operand, env, env2)})"
    if isinstance(n, ast.BinOp) and type(n.op) in (ast.Add, ast.Sub):
        s = {ast.Add: "+", ast.Sub: "-"}[type(n.op)]
        return f"({twice(n.left, env, env2)} {s} {twice(n.right, env, env2)})"
    if isinstance(n, ast.BinOp) and isinstance(n.op, ast.Div) and isinstance(n.right, ast.Constant) and n.right.value == 2 and not isinstance(n.right.value, bool):
        return once(n.left, env)
    if _is_call(n, "abs", 1):
        return f"(iabs {twice(n.args[0], env, env2)})"
    raise Unx("twice: " + ast.dump(n)[:160])


def int_cmp(n, env, env2) -> str:
    """single comparison; both sides unscaled when possible, else both sides doubled (2 > 0 keeps the order)"""
    if not (isinstance(n, ast.Compare) and len(n.ops) == 1 and type(n.ops[0]) in P.CMP):
        raise Unx("int_cmp: " + ast.dump(n)[:160])
    op = P.CMP[type(n.ops[0])]
    try:
        a, b = once(n.left, env), once(n.comparators[0], env)
    except Unx:
        a, b = twice(n.left, env, env2), twice(n.comparators[0], env, env2)
    return P.cmp_term(op, a, b)


def _assign(st, name=None):
    """`name = expr` -> expr"""
    if isinstance(st, ast.Assign) and len(st.targets) == 1 and isinstance(st.targets[0], ast.Name) and (name is None or st.targets[0].id == name):
        return st.value
    raise Unx(f"expected assignment to {name}: {ast.dump(st)[:120]}")


def _append_arg(st, lst):
    """`lst.append(e)` -> e"""
    if isinstance(st, ast.Expr) and _is_call(st.value, f"{lst}.append", 1):
        return st.value.args[0]
    raise Unx(f"expected {lst}.append(...): {ast.dump(st)[:120]}")


def _all_appends(fn):
    return [n for n in ast.walk(fn) if isinstance(n, ast.Call) and isinstance(n.func, ast.Attribute) and n.func.attr in ("append", "extend", "insert")]


def _check_cycler_tail(stmts):
    """cyc = cycler(x_motor, x_points); cyc += cycler(y_motor, y_points); return cyc"""
    a, b, c = stmts
    v = _assign(a, "cyc")
    if not (_is_call(v, "cycler", 2) and P.dotted(v.args[0]) == "x_motor" and P.dotted(v.args[1]) == "x_points"):
        raise Unx("cycler(x_motor, x_points) not recognised")
    if not (isinstance(b, ast.AugAssign) and isinstance(b.op, ast.Add) and P.dotted(b.target) == "cyc" and _is_call(b.value, "cycler", 2) and P.dotted(b.value.args[0]) == "y_motor" and P.dotted(b.value.args[1]) == "y_points"):
        raise Unx("cyc += cycler(y_motor, y_points) not recognised")
    if not (isinstance(c, ast.Return) and P.dotted(c.value) == "cyc"):
        raise Unx("return cyc not recognised")


def _check_points_init(st):
    if not (isinstance(st, ast.Assign) and isinstance(st.targets[0], ast.Tuple) and [P.dotted(e) for e in st.targets[0].elts] == ["x_points", "y_points"] and isinstance(st.value, ast.Tuple) and all(isinstance(e, ast.List) and not e.elts for e in st.value.elts)):
        raise Unx("x_points, y_points = [], [] not recognised")


def _assigned_names(fn):
    out = []
    for n in ast.walk(fn):
        if isinstance(n, (ast.Assign, ast.AugAssign, ast.AnnAssign, ast.For)):
            tg = n.targets if isinstance(n, ast.Assign) else [n.target]
            for t in tg:
                out += [x.id for x in ast.walk(t) if isinstance(x, ast.Name)]
    return out


# ============================================================================= Part A extraction

ENV_A = {k: k for k in ("x", "y", "dr_aspect", "tilt_tan", "half_x", "half_y", "x_range", "y_range", "dr", "dr_y", "x_start", "y_start")}


def _extract_spiral_like(tree, fname, facts):
    fn = _fn(tree, fname)
    body = P.body_wo_doc(fn)
    out = []
    # dr_aspect
    st = body[0]
    if not (isinstance(st, ast.If) and isinstance(st.test, ast.Compare) and P.dotted(st.test.left) == "dr_y" and isinstance(st.test.ops[0], ast.Is) and isinstance(st.test.comparators[0], ast.Constant) and st.test.comparators[0].value is None and len(st.body) == 1 and len(st.orelse) == 1):
        raise Unx(f"{fname}: `if dr_y is None` not recognised")
    a_none = rat(_assign(st.body[0], "dr_aspect"), {})
    a_some = rat(_assign(st.orelse[0], "dr_aspect"), {"dr_y": "dr_y", "dr": "dr"})
    top = {t.targets[0].id: t.value for t in body if isinstance(t, ast.Assign) and len(t.targets) == 1 and isinstance(t.targets[0], ast.Name)}
    for nm in ("half_x", "half_y", "tilt_tan"):
        if nm not in top:
            raise Unx(f"{fname}: top-level assignment of {nm} missing")
    hx = rat(top["half_x"], {"x_range": "x_range"})
    hy = rat(top["half_y"], {"y_range": "y_range", "dr_aspect": "dr_aspect"})
    tt = top["tilt_tan"]
    # tilt_tan = np.tan(tilt + np.pi / 2.0): recorded as a fact (the harness oracle uses tan(tilt) independently)
    if ast.unparse(tt) != "np.tan(tilt + np.pi / 2.0)":  # lean_req_spiral computes the same float for the model
        raise Unx(f"{fname}: tilt_tan is not np.tan(tilt + np.pi / 2.0)")
    facts[f"{fname}.tilt_tan"] = ast.unparse(tt)
    # each of these names is assigned exactly once in the function
    assigned = _assigned_names(fn)
    for nm, cnt in (("half_x", 1), ("half_y", 1), ("tilt_tan", 1), ("dr_aspect", 2), ("x_points", 1), ("y_points", 1), ("x", 1), ("y", 1)):
        if assigned.count(nm) != cnt:
            raise Unx(f"{fname}: {nm} assigned {assigned.count(nm)} times, expected {cnt}")
    # x_points / y_points
    inits = [t for t in body if isinstance(t, ast.Assign) and isinstance(t.targets[0], ast.Tuple)]
    if len(inits) != 1:
        raise Unx(f"{fname}: points initialisation")
    _check_points_init(inits[0])
    _check_cycler_tail(body[-3:])
    # the guarded emit
    ifs = [n for n in ast.walk(fn) if isinstance(n, ast.If) and any(isinstance(s, ast.Expr) and isinstance(s.value, ast.Call) and P.dotted(s.value.func) in ("x_points.append", "y_points.append") for s in n.body)]
    if len(ifs) != 1:
        raise Unx(f"{fname}: expected exactly one guarded emit, found {len(ifs)}")
    g = ifs[0]
    if g.orelse or len(g.body) != 2:
        raise Unx(f"{fname}: guarded emit has an else branch or extra statements")
    ex = _append_arg(g.body[0], "x_points")
    ey = _append_arg(g.body[1], "y_points")
    if len(_all_appends(fn)) != 2:
        raise Unx(f"{fname}: points are appended outside the bounds test")
    free = _names(g.test) - {"abs"}
    if not free <= {"x", "y", "dr_aspect", "tilt_tan", "half_x", "half_y"}:
        raise Unx(f"{fname}: bounds test mentions {sorted(free)}")
    test = rat_bool(g.test, ENV_A)
    emit_x = rat(ex, {"x_start": "x_start", "x": "x"})
    emit_y = rat(ey, {"y_start": "y_start", "y": "y"})
    # the emit must be inside the for loop(s), the candidate x, y assigned in the same block before the test
    facts[fname] = {"test": ast.unparse(g.test), "test_at": f"{SRC_FILE}:{g.lineno}", "half_x": ast.unparse(top["half_x"]), "half_y": ast.unparse(top["half_y"]), "dr_aspect": [a_none, a_some], "emit": [ast.unparse(ex), ast.unparse(ey)], "lean_test": test}
    p = fname
    out += [
        f"/-- `{fname}`: dr_aspect when dr_y is None -/",
        f"def {p}_drAspectNone : Rat := {a_none}",
        f"def {p}_drAspect (dr_y dr : Rat) : Rat := {a_some}",
        f"def {p}_halfX (x_range : Rat) : Rat := {hx}",
        f"def {p}_halfY (y_range dr_aspect : Rat) : Rat := {hy}",
        f"/-- `{fname}` bounds test ({SRC_FILE}:{g.lineno}): `{ast.unparse(g.test)}` -/",
        f"def {p}_test (x y dr_aspect tilt_tan half_x half_y : Rat) : Bool :=",
        f"  {test}",
        f"def {p}_emitX (x_start x : Rat) : Rat := {emit_x}",
        f"def {p}_emitY (y_start y : Rat) : Rat := {emit_y}",
        "",
    ]
    return out


def extract_A(tree, facts):
    out = [
        f"-- GENERATED by harness/props/C27.py from src/bluesky/{SRC_FILE} (spiral, spiral_fermat) -- do not edit.",
        "import BlueskyVerif.Pure.SpiralBase",
        "namespace BlueskyVerif.Pure.Spiral.Gen",
        "open BlueskyVerif.Pure.Spiral",
        "",
    ]
    for fname in ("spiral", "spiral_fermat"):
        out += _extract_spiral_like(tree, fname, facts)
    out += ["end BlueskyVerif.Pure.Spiral.Gen", ""]
    C.write_if_changed(C.LEAN / "BlueskyVerif" / "Pure" / "SpiralGenerated.lean", "\n".join(out))


# ============================================================================= Part B extraction

ENV_B = {"i_ring": "r", "n": "n", "x_num": "xNum", "y_num": "yNum", "num_pnts_fnd": "cnt", "num_ring": "numRing"}
ENV_B2 = {"x_offset": "xo2", "y_offset": "yo2"}
SIDES = ["s1", "s2", "s3", "s4"]


def _offset_rule(st, num, off):
    """if NUM % 2 == 0: OFF = a  else: OFF = b   ->  (2a, 2b) as ints"""
    ok = (
        isinstance(st, ast.If)
        and isinstance(st.test, ast.Compare)
        and len(st.test.ops) == 1
        and isinstance(st.test.ops[0], ast.Eq)
        and isinstance(st.test.left, ast.BinOp)
        and isinstance(st.test.left.op, ast.Mod)
        and P.dotted(st.test.left.left) == num
        and isinstance(st.test.left.right, ast.Constant)
        and st.test.left.right.value == 2
        and isinstance(st.test.comparators[0], ast.Constant)
        and st.test.comparators[0].value == 0
        and len(st.body) == 1
        and len(st.orelse) == 1
    )
    if not ok:
        raise Unx(f"offset rule for {off} not recognised")
    return twice(_assign(st.body[0], off), {}, {}), twice(_assign(st.orelse[0], off), {}, {})


def _range3(call):
    if not _is_call(call, "range"):
        raise Unx("range(...) expected")
    a = call.args
    if len(a) == 3:
        return a[0], a[1], a[2]
    if len(a) == 2:
        return a[0], a[1], ast.Constant(1)
    if len(a) == 1:
        return ast.Constant(0), a[0], ast.Constant(1)
    raise Unx("range arity")


def _coord_multiplier(e, axis):
    """`<c>_center - <c>_delta * <c>_offset [+ <c>_delta * M]`  ->  M (ast) or Constant(0)"""
    c, d, o = f"{axis}_center", f"{axis}_delta", f"{axis}_offset"

    def base(b):
        return isinstance(b, ast.BinOp) and isinstance(b.op, ast.Sub) and P.dotted(b.left) == c and isinstance(b.right, ast.BinOp) and isinstance(b.right.op, ast.Mult) and P.dotted(b.right.left) == d and P.dotted(b.right.right) == o

    if base(e):
        return ast.Constant(0)
    if isinstance(e, ast.BinOp) and isinstance(e.op, ast.Add) and base(e.left) and isinstance(e.right, ast.BinOp) and isinstance(e.right.op, ast.Mult) and P.dotted(e.right.left) == d:
        return e.right.right
    raise Unx(f"{axis} coordinate expression not recognised: {ast.unparse(e)}")


def _two_conj(test):
    if not (isinstance(test, ast.BoolOp) and isinstance(test.op, ast.And) and len(test.values) == 2):
        raise Unx("guard is not `A and B`: " + ast.unparse(test))
    geo, cnt = test.values
    if "num_pnts_fnd" in _names(geo) or "num_pnts_fnd" not in _names(cnt):
        raise Unx("guard conjunct order not recognised: " + ast.unparse(test))
    return geo, cnt


def extract_B(tree, facts):
    fn = _fn(tree, "spiral_square_pattern")
    b = P.body_wo_doc(fn)
    if len(b) != 13:
        raise Unx(f"spiral_square_pattern: {len(b)} top-level statements, expected 13")
    _check_points_init(b[0])
    xo_even, xo_odd = _offset_rule(b[1], "x_num", "x_offset")
    yo_even, yo_odd = _offset_rule(b[2], "y_num", "y_offset")
    nr = _assign(b[3], "num_ring")
    if not (_is_call(nr, "max", 2)):
        raise Unx("num_ring = max(...) not recognised")
    num_ring = f"(max {once(nr.args[0], ENV_B)} {once(nr.args[1], ENV_B)})"
    xd = rat(_assign(b[4], "x_delta"), {"x_range": "range", "x_num": "((num : Int) : Rat)"})
    yd = rat(_assign(b[5], "y_delta"), {"y_range": "range", "y_num": "((num : Int) : Rat)"})
    if xd != yd:
        raise Unx("x_delta and y_delta are computed differently")
    fx = once(_coord_multiplier(_append_arg(b[6], "x_points"), "x"), ENV_B)
    fy = once(_coord_multiplier(_append_arg(b[7], "y_points"), "y"), ENV_B)
    c0 = once(_assign(b[8], "num_pnts_fnd"), {})
    loop = b[9]
    if not (isinstance(loop, ast.For) and P.dotted(loop.target) == "i_ring" and not loop.orelse):
        raise Unx("ring loop not recognised")
    r0, r1, r2 = (once(e, ENV_B) for e in _range3(loop.iter))
    _check_cycler_tail(b[10:13])
    if len(loop.body) != 4:
        raise Unx(f"ring loop has {len(loop.body)} statements, expected the 4 sides")
    if len(_all_appends(fn)) != 2 + 4 * 2:
        raise Unx("unexpected number of append calls")
    rows = {k: [] for k in ("sideGeo", "sideCnt", "sideStart", "sideStop", "sideStep", "innerGeo", "innerCnt", "ptX", "ptY", "cntInc")}
    sides_fact = []
    for sd, st in zip(SIDES, loop.body):
        if not (isinstance(st, ast.If) and not st.orelse and len(st.body) == 1 and isinstance(st.body[0], ast.For)):
            raise Unx(f"side {sd}: `if ...: for ...` not recognised")
        geo, cnt = _two_conj(st.test)
        if "n" in _names(geo):
            raise Unx(f"side {sd}: outer guard mentions n")
        f = st.body[0]
        if not (P.dotted(f.target) == "n" and not f.orelse and len(f.body) == 1 and isinstance(f.body[0], ast.If) and not f.body[0].orelse):
            raise Unx(f"side {sd}: inner loop not recognised")
        a0, a1, a2 = _range3(f.iter)
        inner = f.body[0]
        igeo, icnt = _two_conj(inner.test)
        if "i_ring" in _names(igeo):
            raise Unx(f"side {sd}: inner guard mentions i_ring")
        # body: x = ..; y = ..; num_pnts_fnd += 1; x_points.append(x); y_points.append(y) (the assignment block in this order,
        # the counter increment anywhere)
        stm = list(inner.body)
        incs = [s for s in stm if isinstance(s, ast.AugAssign)]
        rest = [s for s in stm if not isinstance(s, ast.AugAssign)]
        if len(incs) != 1 or not (isinstance(incs[0].op, ast.Add) and P.dotted(incs[0].target) == "num_pnts_fnd"):
            raise Unx(f"side {sd}: counter increment not recognised")
        if len(rest) != 4:
            raise Unx(f"side {sd}: emit block not recognised")
        ex, ey = _assign(rest[0], "x"), _assign(rest[1], "y")
        if P.dotted(_append_arg(rest[2], "x_points")) != "x" or P.dotted(_append_arg(rest[3], "y_points")) != "y":
            raise Unx(f"side {sd}: appends not recognised")
        rows["sideGeo"].append(int_cmp(geo, ENV_B, ENV_B2))
        rows["sideCnt"].append(int_cmp(cnt, ENV_B, ENV_B2))
        rows["sideStart"].append(once(a0, ENV_B))
        rows["sideStop"].append(once(a1, ENV_B))
        rows["sideStep"].append(once(a2, ENV_B))
        rows["innerGeo"].append(int_cmp(igeo, ENV_B, ENV_B2))
        rows["innerCnt"].append(int_cmp(icnt, ENV_B, ENV_B2))
        rows["ptX"].append(once(_coord_multiplier(ex, "x"), ENV_B))
        rows["ptY"].append(once(_coord_multiplier(ey, "y"), ENV_B))
        rows["cntInc"].append(once(incs[0].value, {}))
        sides_fact.append({"side": sd, "at": f"{SRC_FILE}:{st.lineno}", "guard": ast.unparse(st.test), "range": ast.unparse(f.iter), "inner_guard": ast.unparse(inner.test), "x": ast.unparse(ex), "y": ast.unparse(ey)})
    facts["spiral_square_pattern"] = {"sides": sides_fact, "ring_range": ast.unparse(loop.iter), "x_offset2(even,odd)": [xo_even, xo_odd], "y_offset2(even,odd)": [yo_even, yo_odd], "num_ring": ast.unparse(nr), "delta": ast.unparse(b[4].value)}

    def table(name, sig, ret):
        lines = [f"def {name} (k : Side) {sig} : {ret} :=", "  match k with"]
        lines += [f"  | .{sd} => {v}" for sd, v in zip(SIDES, rows[name])]
        return lines + [""]

    out = [
        f"-- GENERATED by harness/props/C27.py from src/bluesky/{SRC_FILE} (spiral_square_pattern) -- do not edit.",
        "-- Half-integer quantities (x_offset, y_offset, x_num / 2) are scaled by 2: xo2 = 2*x_offset, yo2 = 2*y_offset.",
        "import BlueskyVerif.Pure.SpiralBase",
        "namespace BlueskyVerif.Pure.SpiralSquare.Gen",
        "open BlueskyVerif.Pure.Spiral",
        "",
        "inductive Side where",
        "  | " + " | ".join(SIDES),
        "deriving Repr, DecidableEq",
        "",
        "/-- the sides in source order -/",
        "def sides : List Side := [" + ", ".join("." + s for s in SIDES) + "]",
        "",
        "/-- 2 * x_offset -/",
        f"def xOff2 (xNum : Int) : Int := if xNum % 2 == 0 then {xo_even} else {xo_odd}",
        "/-- 2 * y_offset -/",
        f"def yOff2 (yNum : Int) : Int := if yNum % 2 == 0 then {yo_even} else {yo_odd}",
        f"def numRing (xNum yNum : Int) : Int := {num_ring}",
        f"/-- `for i_ring in {ast.unparse(loop.iter)}` -/",
        f"def ringStart : Int := {r0}",
        f"def ringStop (numRing : Int) : Int := {r1}",
        f"def ringStep : Int := {r2}",
        "/-- grid multipliers of the first point and the initial value of num_pnts_fnd -/",
        f"def firstX : Int := {fx}",
        f"def firstY : Int := {fy}",
        f"def cnt0 : Int := {c0}",
        "/-- x_delta / y_delta -/",
        f"def delta (range : Rat) (num : Int) : Rat := {xd}",
        "/-- `c_center - c_delta * c_offset + c_delta * m` (shape checked by the extractor for every emitted coordinate) -/",
        "def coord (center delta offset : Rat) (m : Int) : Rat := center - delta * offset + delta * (m : Rat)",
        "",
    ]
    out += table("sideGeo", "(r xNum yNum xo2 yo2 : Int)", "Bool")
    out += table("sideCnt", "(cnt xNum yNum : Int)", "Bool")
    out += table("sideStart", "(r : Int)", "Int")
    out += table("sideStop", "(r : Int)", "Int")
    out += ["def sideStep (k : Side) : Int :=", "  match k with"] + [f"  | .{sd} => {v}" for sd, v in zip(SIDES, rows["sideStep"])] + [""]
    out += table("innerGeo", "(n xNum yNum xo2 yo2 : Int)", "Bool")
    out += table("innerCnt", "(cnt xNum yNum : Int)", "Bool")
    out += table("ptX", "(r n : Int)", "Int")
    out += table("ptY", "(r n : Int)", "Int")
    out += ["def cntInc (k : Side) : Int :=", "  match k with"] + [f"  | .{sd} => {v}" for sd, v in zip(SIDES, rows["cntInc"])] + [""]
    out += ["end BlueskyVerif.Pure.SpiralSquare.Gen", ""]
    C.write_if_changed(C.LEAN / "BlueskyVerif" / "Pure" / "SpiralSquareGenerated.lean", "\n".join(out))


def extract(ctx):
    tree = ast.parse((C.SRC / SRC_FILE).read_text())
    facts = {}
    extract_A(tree, facts)
    extract_B(tree, facts)
    return facts


# ============================================================================= implementation side


class _Motor:
    def __init__(self, name):
        self.name = name

    def __repr__(self):
        return f"Motor({self.name})"


MX, MY = _Motor("mx"), _Motor("my")


def _fr(x) -> Fraction:
    return x if isinstance(x, Fraction) else Fraction(x)


def _rs(q) -> str:
    q = _fr(q)
    return f"{q.numerator}/{q.denominator}"


def _pts_of(cyc):
    d = cyc.by_key()
    return list(zip(d[MX], d[MY]))


# ----------------------------------------------------------------------------- part A


def spiral_args(case):
    last = case["nth"] if case["kind"] == "spiral" else case["factor"]
    return (MX, MY, case["x_start"], case["y_start"], case["x_range"], case["y_range"], case["dr"], last)


def run_spiral_impl(case):
    import numpy as np

    import bluesky.plan_patterns as pp

    f = pp.spiral if case["kind"] == "spiral" else pp.spiral_fermat
    with warnings.catch_warnings(), np.errstate(all="ignore"):
        warnings.simplefilter("ignore")
        try:
            cyc = f(*spiral_args(case), dr_y=case["dr_y"], tilt=case["tilt"])
        except StopIteration:  # cycler `+=` on an empty cycler: no candidate passed the test
            return {"error": "StopIteration"}
        except Exception as e:  # noqa: BLE001
            return {"error": type(e).__name__}
    return {"points": [(float(x), float(y)) for x, y in _pts_of(cyc)]}


def replica_candidates(case):
    """The candidate sequence (x, y) -- same float operations as the loops of spiral / spiral_fermat.  Only used to
    give the model the rejected candidates too; if the implementation's output is not a subsequence of it the
    comparison falls back to feeding the emitted points back as candidates (see run)."""
    import numpy as np

    dr, dr_y, x_range, y_range = case["dr"], case["dr_y"], case["x_range"], case["y_range"]
    dr_aspect = 1 if dr_y is None else dr_y / dr
    half_x = x_range / 2
    half_y = y_range / (2 * dr_aspect)
    out = []
    with warnings.catch_warnings(), np.errstate(all="ignore"):
        warnings.simplefilter("ignore")
        if case["kind"] == "spiral":
            nth = case["nth"]
            r_max = np.sqrt(half_x**2 + half_y**2)
            num_ring = 1 + int(r_max / dr)
            for i_ring in range(1, num_ring + 2):
                radius = i_ring * dr
                angle_step = 2.0 * np.pi / (i_ring * nth)
                for i_angle in range(int(i_ring * nth)):
                    angle = i_angle * angle_step
                    out.append((float(radius * np.cos(angle)), float(radius * np.sin(angle) * dr_aspect)))
        else:
            factor = case["factor"]
            phi = 137.508 * np.pi / 180.0
            diag = np.sqrt(half_x**2 + half_y**2)
            num_rings = int((1.5 * diag / (dr / factor)) ** 2)
            for i_ring in range(1, num_rings):
                radius = np.sqrt(i_ring) * dr / factor
                angle = phi * i_ring
                out.append((float(radius * np.cos(angle)), float(radius * np.sin(angle) * dr_aspect)))
    return out


def _geom(case):
    dr_aspect = 1.0 if case["dr_y"] is None else case["dr_y"] / case["dr"]
    tan_t = math.tan(case["tilt"])
    tol_x = 1e-9 * (abs(case["x_range"]) + abs(case["y_range"] / dr_aspect * tan_t)) + 64 * 2.3e-16 * (abs(case["x_start"]) + abs(case["y_start"] * tan_t / dr_aspect))
    tol_y = 1e-9 * abs(case["y_range"]) + 64 * 2.3e-16 * abs(case["y_start"])
    return dr_aspect, tan_t, tol_x, tol_y


def _aspect_class(case):
    if case["dr_y"] is None:
        return "dr_y-none"
    return "dr_y-lt-dr" if case["dr_y"] < case["dr"] else "dr_y-ge-dr"


def oracle_spiral(case, obs):
    """The property on the implementation's points: inside the documented rectangle.  The tilted frame is written
    independently of the code: x' = dx + (dy/dr_aspect)*tan(tilt).  -> (violations, n_boundary)"""
    if "points" not in obs:
        return [], 0
    a, tan_t, tol_x, tol_y = _geom(case)
    hx, hy = case["x_range"] / 2, case["y_range"] / 2
    bad, nb = [], 0
    for i, (px, py) in enumerate(obs["points"]):
        dx, dy = px - case["x_start"], py - case["y_start"]
        fx = dx + (dy / a) * tan_t
        ex, ey = abs(fx) - hx, abs(dy) - hy
        if abs(ex) <= tol_x or abs(ey) <= tol_y:
            nb += 1
        if ey > tol_y:
            bad.append((f"{'spiral_fermat' if case['kind'] == 'fermat' else 'spiral'}:y-out-of-range:{_aspect_class(case)}", f"point #{i} ({px!r}, {py!r}): |y - y_start| = {abs(dy)!r} > y_range/2 = {hy!r}"))
            break
        if ex > tol_x:
            bad.append((f"{'spiral_fermat' if case['kind'] == 'fermat' else 'spiral'}:x-out-of-range:{'tilted' if case['tilt'] else 'untilted'}:{_aspect_class(case)}", f"point #{i} ({px!r}, {py!r}): |x'| = {abs(fx)!r} > x_range/2 = {hx!r} (x' = dx + (dy/dr_aspect)*tan(tilt))"))
            break
    return bad, nb


def lean_req_spiral(case, cands):
    import numpy as np

    with np.errstate(all="ignore"):
        tilt_tan = float(np.tan(case["tilt"] + np.pi / 2.0))
    req = {"kind": case["kind"], "x_start": _rs(case["x_start"]), "y_start": _rs(case["y_start"]), "x_range": _rs(case["x_range"]), "y_range": _rs(case["y_range"]), "dr": _rs(case["dr"]), "tilt_tan": _rs(tilt_tan), "cands": [[_rs(x), _rs(y)] for x, y in cands]}
    if case["dr_y"] is not None:
        req["dr_y"] = _rs(case["dr_y"])
    return req


def near_boundary(case, c):
    """candidate within tolerance of one of the two edges of the test (float noise decides it)"""
    import numpy as np

    a, _, tol_x, tol_y = _geom(case)
    with np.errstate(all="ignore"):
        tt = float(np.tan(case["tilt"] + np.pi / 2.0))
    u = c[1] / a
    fx = c[0] - u / tt
    return abs(abs(fx) - case["x_range"] / 2) <= tol_x or abs(abs(u) - case["y_range"] / (2 * a)) * a <= tol_y


def match_subsequence(case, cands, pts):
    """Which candidates did the implementation emit?  -> list of indices, or None when its output is not a
    subsequence of the replica candidates (candidate generation drifted)."""
    acc, j = [], 0
    xs, ys = case["x_start"], case["y_start"]
    for i, (cx, cy) in enumerate(cands):
        if j < len(pts):
            ex, ey = xs + cx, ys + cy
            if abs(pts[j][0] - ex) <= 1e-12 * (1 + abs(ex)) and abs(pts[j][1] - ey) <= 1e-12 * (1 + abs(ey)):
                acc.append(i)
                j += 1
    return acc if j == len(pts) else None


def gen_spiral_case(rng, kind=None):
    kind = kind or rng.choice(["spiral", "fermat"])
    xr = rng.choice([1.0, 2.0, 0.3, round(rng.uniform(0.2, 5), 3)])
    yr = rng.choice([1.0, 2.0, 0.3, xr, round(rng.uniform(0.2, 5), 3)])
    xs = rng.choice([0.0, 0.0, 0.5, -0.5, 100.0, round(rng.uniform(-10, 10), 3)])
    ys = rng.choice([0.0, 0.0, 0.5, -3.25, round(rng.uniform(-10, 10), 3)])
    ratio = rng.choice([None, None, None, 0.5, 2.0, 0.25, 1.0, 4.0, round(rng.uniform(0.3, 3), 3)])
    a = 1.0 if ratio is None else ratio
    r_max = math.hypot(xr / 2, yr / (2 * a))
    rings = rng.choice([1.5, 2.5, 4.0, 6.0, round(rng.uniform(1.2, 9), 2)])
    dr = r_max / rings
    tilt = rng.choice([0.0, 0.0, 0.0, 0.1, -0.3, 0.5, 1.0, -1.0, round(rng.uniform(-1.2, 1.2), 3)])
    case = {"kind": kind, "x_start": xs, "y_start": ys, "x_range": xr, "y_range": yr, "dr": dr, "dr_y": None if ratio is None else dr * ratio, "tilt": tilt}
    if kind == "spiral":
        case["nth"] = rng.choice([1, 2, 3, 5, 8, 2.5, round(rng.uniform(1, 8), 2)])
    else:
        case["factor"] = rng.choice([1, 2, 1.0, 1.5, round(rng.uniform(0.8, 1.0 + 9 / rings), 2)])
    return case


def small_spiral_cases():
    for kind in ("spiral", "fermat"):
        for ratio in (None, 0.5, 2.0):
            for tilt in (0.0, 0.3, -0.7):
                for last in (1, 3):
                    for xr, yr in ((1.0, 1.0), (2.0, 1.0)):
                        dr = 0.25
                        case = {"kind": kind, "x_start": 0.0, "y_start": 0.0, "x_range": xr, "y_range": yr, "dr": dr, "dr_y": None if ratio is None else dr * ratio, "tilt": tilt}
                        case["nth" if kind == "spiral" else "factor"] = last
                        yield case
    # inputs for which no candidate passes (the function then raises StopIteration from cycler)
    yield {"kind": "spiral", "x_start": 0.0, "y_start": 0.0, "x_range": -1.0, "y_range": 1.0, "dr": 0.25, "dr_y": None, "tilt": 0.0, "nth": 2}
    yield {"kind": "fermat", "x_start": 0.0, "y_start": 0.0, "x_range": 1.0, "y_range": -1.0, "dr": 0.25, "dr_y": None, "tilt": 0.0, "factor": 1}
    yield {"kind": "fermat", "x_start": 0.0, "y_start": 0.0, "x_range": 1.0, "y_range": 1.0, "dr": 5.0, "dr_y": None, "tilt": 0.0, "factor": 1}


# ----------------------------------------------------------------------------- part B


def square_inputs(case):
    """exact mode: Fractions with a dyadic step, so that every coordinate (also the float half-offset) is exact;
    float mode: ordinary floats."""
    a, b = case["x_num"], case["y_num"]
    if case["mode"] == "exact":
        sx, sy = Fraction(case["step_x"]), Fraction(case["step_y"])
        return Fraction(case["xc"]), Fraction(case["yc"]), sx * (a - 1), sy * (b - 1)
    return float(case["xc"]), float(case["yc"]), float(case["xr"]), float(case["yr"])


def run_square_impl(case):
    import bluesky.plan_patterns as pp

    xc, yc, xr, yr = square_inputs(case)
    try:
        cyc = pp.spiral_square_pattern(MX, MY, xc, yc, xr, yr, case["x_num"], case["y_num"])
    except Exception as e:  # noqa: BLE001
        return {"error": type(e).__name__}
    pts = _pts_of(cyc)
    if case["mode"] == "exact":
        return {"points": [[_rs(x), _rs(y)] for x, y in pts]}
    return {"points": [[float(x), float(y)] for x, y in pts]}


def square_grid_indices(case, obs):
    """(k, l, exact?) of every produced point w.r.t. the documented grid  x_center - x_range/2 + k*x_range/(x_num-1)"""
    a, b = case["x_num"], case["y_num"]
    xc, yc, xr, yr = square_inputs(case)
    out = []
    if case["mode"] == "exact":
        for sx, sy in obs["points"]:
            x, y = Fraction(sx), Fraction(sy)
            k = (x - (xc - xr / 2)) / (xr / (a - 1))
            l = (y - (yc - yr / 2)) / (yr / (b - 1))
            ok = k.denominator == 1 and l.denominator == 1
            out.append((int(k) if k.denominator == 1 else float(k), int(l) if l.denominator == 1 else float(l), ok))
    else:
        for x, y in obs["points"]:
            kf = (x - (xc - xr / 2)) / (xr / (a - 1))
            lf = (y - (yc - yr / 2)) / (yr / (b - 1))
            k, l = round(kf), round(lf)
            ok = abs(kf - k) <= 1e-9 * (a - 1) + 1e-9 and abs(lf - l) <= 1e-9 * (b - 1) + 1e-9
            out.append((k, l, ok))
    return out


def _parity(case):
    return f"{'even' if case['x_num'] % 2 == 0 else 'odd'}-x-{'even' if case['y_num'] % 2 == 0 else 'odd'}-y"


def oracle_square(case, obs):
    """every point of the x_num x y_num grid exactly once (only for sizes the function accepts, x_num, y_num >= 2)"""
    a, b = case["x_num"], case["y_num"]
    if "points" not in obs or a < 2 or b < 2:
        return []
    g = square_grid_indices(case, obs)
    par = _parity(case)
    off = [(i, k, l) for i, (k, l, ok) in enumerate(g) if not ok or not (0 <= k < a and 0 <= l < b)]
    if off:
        i, k, l = off[0]
        return [(f"square:off-grid:{par}", f"{a}x{b}: point #{i} {obs['points'][i]} is not a grid point (grid index {k}, {l})")]
    seen = {}
    for i, (k, l, _) in enumerate(g):
        if (k, l) in seen:
            return [(f"square:duplicate:{par}", f"{a}x{b}: grid point ({k}, {l}) produced twice (#{seen[(k, l)]} and #{i})")]
        seen[(k, l)] = i
    if len(seen) != a * b:
        miss = sorted({(k, l) for k in range(a) for l in range(b)} - set(seen))
        return [(f"square:missing:{par}", f"{a}x{b}: {len(miss)} grid point(s) never produced, first {miss[0]}")]
    return []


def gen_square_case(rng, a, b, mode=None):
    mode = mode or "exact"
    if mode == "exact":
        return {"kind": "square", "mode": "exact", "x_num": a, "y_num": b, "xc": rng.choice([0, 0, 1, -3, 10]), "yc": rng.choice([0, 0, -1, 7]), "step_x": rng.choice(["1", "1", "2", "1/2", "1/4", "3"]), "step_y": rng.choice(["1", "1", "2", "1/2", "5"])}
    return {"kind": "square", "mode": "float", "x_num": a, "y_num": b, "xc": round(rng.uniform(-10, 10), 3), "yc": round(rng.uniform(-10, 10), 3), "xr": rng.choice([1.0, 0.3, round(rng.uniform(0.1, 20), 3)]), "yr": rng.choice([1.0, 0.7, round(rng.uniform(0.1, 20), 3)])}


def lean_req_square(case):
    req = {"kind": "square", "x_num": case["x_num"], "y_num": case["y_num"]}
    if case["mode"] == "exact" and case["x_num"] >= 2 and case["y_num"] >= 2 and case["x_num"] * case["y_num"] <= 700:
        xc, yc, xr, yr = square_inputs(case)
        req.update({"coords": True, "xc": _rs(xc), "yc": _rs(yc), "xr": _rs(xr), "yr": _rs(yr)})
    return req


# ============================================================================= the run


def _cases(ctx):
    corpus = C.VERIF / "corpus" / "C27"
    if corpus.exists():
        for f in sorted(corpus.glob("*.json")):
            yield json.loads(f.read_text())["case"]
    rng = ctx.rng
    big = ctx.tier == "thorough" or ctx.deep
    # part B: every size 1..N x 1..N (exact Fractions), then sizes the function does not accept, then floats
    n = 40 if big else 25
    for a in range(1, n + 1):
        for b in range(1, n + 1):
            yield gen_square_case(rng, a, b)
    for a in (-2, -1, 0):
        for b in (-1, 0, 1, 2, 3, 4):
            yield gen_square_case(rng, a, b)
            yield gen_square_case(rng, b, a)
    for _ in range(ctx.budget(120, 1500)):
        yield gen_square_case(rng, rng.randint(2, 30 if not big else 60), rng.randint(2, 30 if not big else 60), rng.choice(["float", "float", "exact"]))
    # part A
    yield from small_spiral_cases()
    for _ in range(ctx.budget(800, 15000)):
        yield gen_spiral_case(rng)


def _key(case):
    if case["kind"] == "square":
        return f"square:{case['mode']}:{_parity(case)}" if min(case["x_num"], case["y_num"]) >= 2 else "square:rejected-or-degenerate-size"
    return f"{case['kind']}:{_aspect_class(case)}:{'tilted' if case['tilt'] else 'untilted'}"


def _short(obs):
    if isinstance(obs, dict):
        return {k: (v[:6] + ["..."] if isinstance(v, list) and len(v) > 6 else v) for k, v in obs.items()}
    return obs


def run(ctx, model=True):
    res = C.Result(
        rule="cases = corpus + spiral_square_pattern on EVERY size 1..25 x 1..25 (thorough 1..40) with exact Fraction inputs + "
        "sizes <= 1 + random float/exact sizes up to 30 (60) + spiral/spiral_fermat on a small exhaustive table (dr_y, tilt, nth/factor, "
        "ranges) and random parameters (tilt in [-1.2, 1.2], dr_y/dr in [0.25, 4]); non-trivial = square: both sizes >= 2 and not both "
        "equal parity-trivial 2x2, spiral: at least one candidate accepted and one rejected"
    )
    cases, obss, reqs, aux = [], [], [], []
    n_boundary = 0
    for case in _cases(ctx):
        if case["kind"] == "square":
            obs = run_square_impl(case)
            bad = oracle_square(case, obs)
            req = lean_req_square(case)
            ax = None
            nontrivial = "points" in obs and min(case["x_num"], case["y_num"]) >= 2 and (case["x_num"], case["y_num"]) != (2, 2)
        else:
            obs = run_spiral_impl(case)
            bad, nb = oracle_spiral(case, obs)
            n_boundary += nb
            cands = replica_candidates(case)
            req = lean_req_spiral(case, cands)
            ax = cands
            nontrivial = "points" in obs and 0 < len(obs["points"]) < len(cands)
        cases.append(case)
        obss.append(obs)
        reqs.append(req)
        aux.append(ax)
        res.seen(case, nontrivial)
        res.count(_key(case))
        res.count("impl:" + ("ok" if "points" in obs else obs["error"]))
        for sig, what in bad:
            res.violations.append(C.Violation(sig, what, case))
    res.count("spiral-points-within-1e-9-of-the-boundary", n_boundary)
    if not model:
        res.samples.append({"case": cases[-1], "impl": _short(obss[-1])})
        return res
    replies = [json.loads(r) for r in C.lean_batch(DRIVER, [json.dumps(r) for r in reqs])]
    drift = []
    for i, (case, obs, rep, ax) in enumerate(zip(cases, obss, replies, aux)):
        if case["kind"] == "square":
            d = compare_square(case, obs, rep)
            if d:
                res.disagreements.append({"case": case, "why": d, "model": _short(rep), "impl": _short(obs)})
        else:
            d = compare_spiral(case, obs, rep, ax, res)
            if d == "drift":
                drift.append(i)
            elif d:
                res.disagreements.append({"case": case, "why": d, "model": _short(rep), "impl": _short(obs)})
    if drift:
        # the implementation's candidates are not the replica's: feed what it emitted back as candidates --
        # the model (generated bounds test, exact arithmetic) must accept every emitted point
        res.notes.append(f"{len(drift)} spiral cases: output is not a subsequence of the harness' replica candidates; only the emitted points were checked against the model")
        res.count("spiral:candidate-drift", len(drift))
        fb = []
        for i in drift:
            case = cases[i]
            fb.append([(Fraction(px) - Fraction(case["x_start"]), Fraction(py) - Fraction(case["y_start"])) for px, py in obss[i]["points"]])
        reps = [json.loads(r) for r in C.lean_batch(DRIVER, [json.dumps(lean_req_spiral(cases[i], c)) for i, c in zip(drift, fb)])]
        for i, c, rep in zip(drift, fb, reps):
            rejected = [j for j in range(len(c)) if j not in set(rep.get("accepted", [])) and not near_boundary(cases[i], (float(c[j][0]), float(c[j][1])))]
            if rejected:
                res.disagreements.append({"case": cases[i], "why": f"the model's bounds test rejects emitted point #{rejected[0]} {obss[i]['points'][rejected[0]]}", "impl": _short(obss[i])})
    for i in (0, len(cases) // 3, len(cases) - 1):
        res.samples.append({"case": cases[i], "impl": _short(obss[i]), "model": _short(replies[i])})
    return res


def compare_square(case, obs, rep):
    if "error" in obs or "error" in rep:
        return None if obs.get("error") == rep.get("error") else f"impl {obs.get('error', 'ok')} vs model {rep.get('error', 'ok')}"
    if len(obs["points"]) != len(rep["idx"]):
        return f"impl produced {len(obs['points'])} points, model {len(rep['idx'])}"
    if case["x_num"] >= 2 and case["y_num"] >= 2:
        g = square_grid_indices(case, obs)
        for i, ((k, l, ok), m) in enumerate(zip(g, rep["grid"])):
            if not ok or [k, l] != m:
                return f"point #{i}: impl grid index ({k}, {l}) vs model {m}"
    if rep.get("coords"):
        for i, (p, q) in enumerate(zip(obs["points"], rep["coords"])):
            if [Fraction(p[0]), Fraction(p[1])] != [Fraction(q[0]), Fraction(q[1])]:
                return f"point #{i}: impl coordinates {p} vs model {q}"
    return None


def compare_spiral(case, obs, rep, cands, res):
    if "error" in obs:
        if obs["error"] == "StopIteration":
            return None if rep.get("error") == "StopIteration" or all(near_boundary(case, cands[i]) for i in rep.get("accepted", [])) else "impl emitted nothing (StopIteration), model accepts candidates"
        return f"impl raised {obs['error']}"
    acc_impl = match_subsequence(case, cands, obs["points"])
    if acc_impl is None:
        return "drift"
    acc_model = set(rep.get("accepted", []))
    diff = sorted(set(acc_impl) ^ acc_model)
    hard = [i for i in diff if not near_boundary(case, cands[i])]
    res.count("spiral-candidates-decided-by-float-noise", len(diff) - len(hard))
    if hard:
        i = hard[0]
        return f"candidate #{i} {cands[i]}: impl {'emits' if i in set(acc_impl) else 'rejects'}, model {'accepts' if i in acc_model else 'rejects'}"
    return None


def run_impl_only(ctx):
    return run(ctx, model=False)


def replay(ctx, data):
    res = C.Result()
    case = data.get("case")
    if not case:
        return res
    if case["kind"] == "square":
        bad = oracle_square(case, run_square_impl(case))
    else:
        bad, _ = oracle_spiral(case, run_spiral_impl(case))
    for sig, what in bad:
        res.violations.append(C.Violation(sig, what, case))
    return res
