"""C01 -- every opened run is a well-formed document stream, whatever happens."""
from __future__ import annotations

import copy

import common as C
import fault_probes as FP
import re_probes as RP
import engine_common as E
import engine_extract
from engine_common import M, seq

MANIFEST = {
    "text": "FULL for the lifecycle / reference clauses (schema validity and uid uniqueness are labelled TESTS). Lean: an invariant "
    "DocInv relating the emitted documents, the open bundlers, the device subscriptions and the run counter of the engine model is "
    "preserved by every block of RunEngine._run, every command handler, every request (pause/suspend/abort/stop/halt/status/monitor "
    "update) and the scheduler, for EVERY plan (arbitrary generator behaviour), device specification, environment script, arrival "
    "bound and fuel; consequences (Props/C01.lean): each run's first document is its RunStart, one RunStart and at most one RunStop "
    "per run, nothing of a run after its RunStop, every descriptor/event/stop is preceded by its run's RunStart, every event by a "
    "descriptor of the same run and stream, and when the _run task is over (engine idle again) every started run has exactly one "
    "RunStop (the outer finally closes every open bundler: depends on the extracted fact finallyClosesRuns). The same scenarios run "
    "on the real RunEngine and on the model; all logs incl. the documents must agree; the oracle evaluates the same clauses on the "
    "real documents.",
    "note": "Trusted: Lean kernel; engine_extract.py; the hand-written _run machine (Engine/Model.lean, Sim.lean) tied by the "
    "correspondence run; documents are reduced to (kind, run, stream, seq, ...) skeletons; uid uniqueness and event-model schema "
    "validity are checked on the real documents by the harness only (test-level); flyers/collect/resource documents not modelled.",
    "technique": "Lean 4 invariant proof over the program-counter model of RunEngine._run (induction over scheduler fuel) + differential "
    "runs against the real RunEngine on run-lifecycle-targeted scenarios",
}
LEAN_MODULES = ["BlueskyVerif.Props.C01"]
DRIVER_MODULES = E.DRIVER_MODULES
DRIVER = E.DRIVER
ASSUMPTIONS = [
    "requests from other threads act atomically while _run is suspended at an await",
    "synchronous fake devices; statuses complete only when the script says so",
    "uid uniqueness and schema validity are tests on the real documents, not theorems",
]


def extract(ctx):
    return engine_extract.extract()


# ----------------------------------------------------------------------------- the property on a document list
def check_docs(docs):
    """Lifecycle / reference clauses on a list of document skeletons (order of emission).
    Returns [(sig, what)].  Also used per run projection by C14."""
    bad = []
    started, stopped, described = {}, {}, set()
    for i, d in enumerate(docs):
        k, r = d["k"], d.get("run")
        if k == "start":
            if r in started:
                bad.append(("two-starts", f"doc {i}: a second RunStart for {r}"))
            elif any(x.get("run") == r for x in docs[:i]):
                bad.append(("first-doc-not-start", f"doc {i}: RunStart of {r} is not the first document of that run"))
            started.setdefault(r, i)
            continue
        if k == "descriptor":
            if r is None or r not in started:
                bad.append(("descriptor-unknown-run", f"doc {i}: descriptor {d.get('stream')!r} names a run whose RunStart was not emitted earlier ({r})"))
                continue
        elif k == "event":
            if r is None or (r, d.get("stream")) not in described:
                bad.append(("event-unknown-descriptor", f"doc {i}: event seq {d.get('seq')} names a descriptor that was not emitted earlier (run {r}, stream {d.get('stream')!r})"))
                continue
        elif k == "stop":
            if r is None or r not in started:
                bad.append(("stop-unknown-run", f"doc {i}: RunStop names a run whose RunStart was not emitted earlier ({r})"))
                continue
        else:
            bad.append((f"unknown-document-kind:{k}", f"doc {i}: unexpected document name {k!r}"))
            continue
        if r in stopped:
            if k == "stop":
                bad.append(("two-stops", f"doc {i}: a second RunStop for {r} (first at {stopped[r]})"))
            else:
                bad.append((f"doc-after-stop:{k}", f"doc {i}: {k} of {r} emitted after its RunStop (doc {stopped[r]})"))
        if k == "descriptor":
            described.add((r, d.get("stream")))
        if k == "stop":
            stopped.setdefault(r, i)
    return bad


def open_after(docs):
    st = [d["run"] for d in docs if d["k"] == "start"]
    sp = [d.get("run") for d in docs if d["k"] == "stop"]
    return [r for r in st if sp.count(r) != 1]


def oracle(sc, o):
    bad = list(check_docs(o["docs"]))
    # once the engine is idle again every started run has exactly one RunStop: at every return of a blocking call
    dt, rt = o["ticks"]["docs"], o["ticks"]["returns"]
    for r, t in zip(o["returns"], rt):
        op, result, state, nopen = r[0], r[1], r[2], r[5]
        if state != "idle":
            continue
        upto = [d for d, td in zip(o["docs"], dt) if td < t]
        left = open_after(upto)
        if left:
            bad.append((f"idle-run-not-stopped:{op}", f"{op} ended ({result}) with the engine idle but {left} have no / several RunStop"))
        if nopen:
            bad.append((f"idle-bundlers-left:{op}", f"{op} ended ({result}) with the engine idle but {nopen} run bundlers are still registered"))
    if o["final_state"] == "idle" and open_after(o["docs"]):
        bad.append(("idle-run-not-stopped:final", f"engine idle at the end but {open_after(o['docs'])} have no / several RunStop"))
    if o.get("dup_uids"):
        bad.append(("dup-uid", f"TEST: {len(o['dup_uids'])} document uid(s) emitted twice"))
    for e in o.get("schema_errors", [])[:1]:
        bad.append((f"schema-error:{e.split(':')[0]}", f"TEST: event-model schema validation failed: {e}"))
    # de-duplicate by sig (first explanation wins)
    seen, out = set(), []
    for s, w in bad:
        if s not in seen:
            seen.add(s)
            out.append((s, w))
    return out


# ----------------------------------------------------------------------------- targeted generator
KEYS = [None, "a", "b"]


def run_tokens(rng, key, fancy=True):
    """the message sequence of one run with run key `key`"""
    b = [M("open_run", run=key)]
    mon = fancy and rng.random() < 0.3
    if mon:
        b.append(M("monitor", "s1", run=key, name=rng.choice(["s1_monitor", "mon"])))
    for _ in range(rng.choice([0, 1, 1, 2])):
        if rng.random() < 0.6:
            b.append(M("checkpoint"))
        if rng.random() < 0.35:
            g = rng.choice(["g", "h"])
            b.append(M("set", rng.choice(["m1", "m2"]), rng.choice([0, 1, 2, 5]), group=g))
            b.append(M("wait", None, group=g))
        if rng.random() < 0.2:
            b.append(M("trigger", "d1", group="t"))
            b.append(M("wait", None, group="t"))
        b.append(M("create", None, name=rng.choice(["primary", "primary", "baseline"]), run=key))
        for d in ("d1", "d2"):
            if rng.random() < 0.65:
                b.append(M("read", d, run=key))
        b.append(M("save", run=key) if rng.random() < 0.9 else M("drop", run=key))
        if rng.random() < 0.15:
            b.append(M("sleep", None, rng.choice([0, 1])))
    if mon and rng.random() < 0.6:
        b.append(M("unmonitor", "s1", run=key))
    return b


def close_msg(rng, key):
    kw = {}
    if rng.random() < 0.25:
        kw["exit_status"] = rng.choice(["success", "abort", "fail"])
    return M("close_run", run=key, **kw)


def noise(rng, keys):
    r = rng.random()
    k = rng.choice(keys)
    if r < 0.16:
        return {"k": "raise"}
    if r < 0.30:
        return M("open_run", run=k)  # possibly a duplicate open
    if r < 0.40:
        return M("close_run", run=rng.choice(KEYS))  # possibly not open / closes early
    if r < 0.50:
        return M("pause", None, defer=rng.random() < 0.5)
    if r < 0.58:
        return M("checkpoint")
    if r < 0.64:
        return M("create", None, name="primary", run=rng.choice(KEYS))
    if r < 0.70:
        return M("save", run=rng.choice(KEYS))
    if r < 0.76:
        return M("bogus")
    if r < 0.82:
        return M("clear_checkpoint")
    if r < 0.88:
        return M("monitor", "s1", run=rng.choice(KEYS), name="s1_monitor")
    if r < 0.93:
        return M("rewindable", None, rng.random() < 0.5)
    return M("sleep", None, 0)


def gen_plan(rng, keys=None):
    """runs with keys opened in nested / interleaved / sequential order, closed in LIFO / non-LIFO order, by the
    body or by a `finally` block, or not at all; failures and malformed messages at random positions"""
    if keys is None:
        keys = rng.choice([[None], [None], ["a"], [None, "a"], ["a", "b"], [None, "a", "b"], [None, "a", "b"]])
    keys = list(keys)
    rng.shuffle(keys)
    layout = rng.choice(["nested", "interleaved", "sequential", "interleaved"])
    closes_in_fin = rng.random() < 0.35
    bodies = {k: run_tokens(rng, k) for k in keys}
    closers = {k: close_msg(rng, k) for k in keys if rng.random() < 0.85}
    body = []
    if layout == "sequential":
        for k in keys:
            body += bodies[k]
            if k in closers and not closes_in_fin:
                body.append(closers[k])
            if rng.random() < 0.3:  # the same key again
                body += run_tokens(rng, k, fancy=False)
                if rng.random() < 0.8:
                    body.append(close_msg(rng, k))
    elif layout == "nested":
        opens = [bodies[k][:1] for k in keys]
        rests = [bodies[k][1:] for k in keys]
        for o_ in opens:
            body += o_
        for r_ in rests:
            body += r_
        order = list(reversed(keys)) if rng.random() < 0.5 else list(keys)  # LIFO or FIFO closes
        if rng.random() < 0.3:
            rng.shuffle(order)
        if not closes_in_fin:
            body += [closers[k] for k in order if k in closers]
    else:
        srcs = []
        for k in keys:
            t = list(bodies[k])
            if k in closers and not closes_in_fin:
                t.append(closers[k])
            srcs.append(t)
        while any(srcs):
            s_ = rng.choice([s_ for s_ in srcs if s_])
            body.append(s_.pop(0))
    # failures / malformed messages at random positions
    for _ in range(rng.choice([0, 0, 1, 1, 2, 3])):
        body.insert(rng.randrange(0, len(body) + 1), noise(rng, keys))
    staged = [d for d in ("m1", "d2") if rng.random() < 0.25]
    body = [M("stage", d) for d in staged] + body
    fin = []
    if closes_in_fin:
        order = list(keys)
        rng.shuffle(order)
        fin += [close_msg(rng, k) for k in order if rng.random() < 0.9]
    fin += [M("unstage", d) for d in reversed(staged)]
    r = rng.random()
    if fin or r < 0.3:
        handler = seq(M("null")) if rng.random() < 0.25 else None
        plan = {"k": "try", "body": seq(*body), "handler": handler, "fin": seq(*fin) if fin else None}
        if rng.random() < 0.2:
            plan = seq(plan, *run_tokens(rng, rng.choice(keys), fancy=False), close_msg(rng, rng.choice(keys)))
        return plan
    return seq(*body)


ACTS = ["pause", "pause_defer", "suspend", "abort", "stop", "halt", "monitor", "status"]


def one_action(rng, kind, fut=0):
    if kind == "pause":
        return {"a": "pause", "defer": False}
    if kind == "pause_defer":
        return {"a": "pause", "defer": True}
    if kind == "suspend":
        return {"a": "suspend", "fut": fut, "pre": E.small_plan(rng), "post": E.small_plan(rng), "just": rng.choice([None, "beam"])}
    if kind == "monitor":
        return {"a": "monitor", "sig": "s1", "v": rng.randrange(1, 9)}
    if kind == "status":
        return {"a": "status", "id": rng.randrange(0, 3), "ok": rng.random() < 0.5}
    return {"a": kind}


def gen_script(rng, n_arr):
    """dense: 1..5 requests at random arrivals (the last arrival is the exit sleep S4 of a completed plan)"""
    script = {}
    fut = 0
    for _ in range(rng.choice([1, 1, 2, 3, 4, 5])):
        at = rng.randrange(0, max(1, n_arr + 1))
        if rng.random() < 0.15:
            at = max(0, n_arr - 1)
        kind = rng.choice(ACTS)
        act = one_action(rng, kind, fut)
        if kind == "suspend":
            if rng.random() < 0.7:
                script.setdefault(str(at + rng.randrange(1, 5)), []).append({"a": "release", "fut": fut})
            fut += 1
        script.setdefault(str(at), []).append(act)
    return script


def base_scenario(rng, keys=None):
    return {
        "record_interruptions": rng.random() < 0.5,
        "devices": E.gen_devices(rng),
        "plan": gen_plan(rng, keys),
        "script": {},
        "decisions": [rng.choice(["resume", "resume", "resume", "abort", "stop", "halt"]) for _ in range(6)],
        "max_arrivals": 200,
    }


def gen_scenario(rng, keys=None):
    sc = base_scenario(rng, keys)
    if rng.random() < 0.12:
        return E.number(sc)  # no requests: plan-internal failures only
    base = E.run_scenario(E.number(copy.deepcopy(sc)))
    sc["script"] = gen_script(rng, len(base["arrivals"]))
    return E.number(sc)


def sweep(rng, keys=None, stride=1):
    """one base scenario x (a failure at every plan position) + (each request kind at every arrival index) x a decision"""
    sc = base_scenario(rng, keys)
    sc["devices"] = {k: dict(v, modes={}) for k, v in sc["devices"].items()}
    out = []
    plan = sc["plan"]
    body = plan["body"]["body"] if plan["k"] == "try" else plan["body"]
    if plan["k"] == "seq" and body and body[0]["k"] == "try":
        body = body[0]["body"]["body"]
    for i in range(0, len(body) + 1, stride):
        v = copy.deepcopy(sc)
        p = v["plan"]
        b = p["body"]["body"] if p["k"] == "try" else p["body"]
        if p["k"] == "seq" and b and b[0]["k"] == "try":
            b = b[0]["body"]["body"]
        b.insert(i, {"k": "raise"})
        out.append(E.number(v))
    base = E.run_scenario(E.number(copy.deepcopy(sc)))
    n = len(base["arrivals"])
    for at in range(0, n, stride):
        kind = rng.choice(ACTS[:6])
        v = copy.deepcopy(sc)
        v["script"] = {str(at): [one_action(rng, kind)]}
        if kind == "suspend":
            v["script"].setdefault(str(at + rng.randrange(1, 4)), []).append({"a": "release", "fut": 0})
        v["decisions"] = [rng.choice(["resume", "abort", "stop", "halt"])] + ["resume"] * 3
        out.append(E.number(v))
    return out


def fixed_scenarios():
    """small exhaustive family: two nested keyed runs, closes in `finally`; every request kind at every arrival"""
    plan = {
        "k": "try",
        "body": seq(
            M("open_run", run="a"), M("open_run"), M("monitor", "s1", name="s1_monitor"),
            M("checkpoint"), M("create", None, name="primary", run="a"), M("read", "d1", run="a"), M("save", run="a"),
            M("create", None, name="primary"), M("read", "d2"), M("save"), M("close_run", run="a"),
        ),
        "handler": None,
        "fin": seq(M("close_run")),
    }
    devs = {"m1": {"kind": "motor", "modes": {}}, "m2": {"kind": "motor", "modes": {}}, "d1": {"kind": "det", "modes": {}, "offset": 1},
            "d2": {"kind": "det", "modes": {}, "offset": 2}, "s1": {"kind": "sig"}}
    out = []
    for ri in (False, True):
        for kind in ("pause", "abort", "stop", "halt", "suspend"):
            for at in range(0, 14, 2 if ri else 1):
                for dec in (["resume"], ["abort"]) if kind == "pause" else ([],):
                    script = {str(at): [{"a": "pause", "defer": False} if kind == "pause" else
                                        ({"a": "suspend", "fut": 0, "pre": None, "post": None, "just": None} if kind == "suspend" else {"a": kind})]}
                    if kind == "suspend":
                        script[str(at + 2)] = [{"a": "release", "fut": 0}]
                    out.append(E.number({"record_interruptions": ri, "devices": copy.deepcopy(devs), "plan": copy.deepcopy(plan),
                                         "script": script, "decisions": dec + ["resume"], "max_arrivals": 200}))
    return out


def make_gen(keys_fn=None):
    pending = []

    def gen(rng):
        if pending:
            return pending.pop()
        keys = keys_fn(rng) if keys_fn else None
        if rng.random() < 0.06:
            pending.extend(sweep(rng, keys, stride=rng.choice([1, 2])))
            return pending.pop()
        return gen_scenario(rng, keys)

    return gen


def _probe_docs(sc, o):
    return [(sig, what) for sig, what in check_docs(o["docs"])]


PROBE_JUDGES = [FP.every_run_closed_once, _probe_docs]


def run(ctx, model=True):
    extra = fixed_scenarios()
    if ctx.tier != "thorough" and not ctx.deep:
        extra = extra[:: 4]
    res = E.run_property(ctx, "C01", oracle, gen=make_gen(), quick=110, thorough=2400, model=model, extra_scenarios=extra)
    FP.run_probes(ctx, res, PROBE_JUDGES, ["close"], 40, 800)
    RP.add_to(res, ["external-assets"])
    return res


def run_impl_only(ctx):
    return run(ctx, model=False)


def replay(ctx, data):
    r = RP.replay(data)
    if r is not None:
        return r
    if FP.is_probe(data):
        return FP.replay_probe(ctx, data, PROBE_JUDGES)
    return E.replay_property(ctx, data, oracle)
