"""C16 -- Descriptors carry the device configuration current when they were made.

Tie: (T) Bundler/Generated.lean (among others: the monitor closure composes with the stream's CURRENT
descriptor -- `monitorUsesCurrentDescriptor` -- which C16_later_events_reference_new depends on);
(C) generated message sequences interleaving configure with bundles / monitors / collects on several
streams (plus pokes of the device behind the engine's back, to confirm the modelled staleness) are run
on the real RunEngine and on the Lean model and compared document by document.
"""
from __future__ import annotations

import bundler_props as P
import re_probes as RP

MANIFEST = {
    "text": "FULL under the stated assumption (configuration changes only through configure messages -- made explicit as the "
    "shape of the histories: units that are any bundler operation or 'device configured + RunBundler.configure'; a bare device "
    "poke is excluded and shown to leave a stale value). Theorems over ALL such histories: every descriptor _prepare_stream emits "
    "records for every object of its stream exactly the configuration the device reports at that moment "
    "(C16_descriptor_records_current_config); after configure(o) every stream containing o holds a NEW descriptor (fresh uid), same "
    "data keys and objects, emitted during the configure and recording the new configuration, other streams keep theirs "
    "(C16_reconfigure, by induction over the loop of configure); in ANY continuation every bundle event, monitor event and stream "
    "datum of such a stream references a descriptor made at or after the configure, never the old one "
    "(C16_later_events_reference_new).",
    "note": "Trusted: Lean kernel; bundler_extract.py; the hand-written transcription of RunBundler tied by the correspondence run. "
    "One genuine defect was found with this check and repaired in /repo (monitor events kept the descriptor captured at monitor "
    "time); the model follows the extracted fact, reverting the fix breaks C16_later_events_reference_new and the stored corpus "
    "case fails.",
    "technique": "Lean 4 proof (state-relation frames generated per operation + invariants over histories + fold induction) + translator + correspondence run",
}
LEAN_MODULES = ["BlueskyVerif.Props.C16"]
DRIVER_MODULES = P.DRIVER_MODULES
DRIVER = "Drivers/C16.lean"
ASSUMPTIONS = P.ASSUMPTIONS + ["configuration changes only through configure messages (the config cache is filled once per run per object); pokes are generated too and must reproduce the modelled staleness"]
TRUSTED = P.TRUSTED
RULE = "cases = corpus (incl. the monitor-after-configure defect input) + random structured sequences weighted towards configure / monitors / several streams / pokes; non-trivial = some message raised, or the sequence contains pause/resume/configure/monitor update/collect/poke"

extract = P.extract


def run(ctx, model=True):
    res = P.run(ctx, "C16", "C16", 1200, 25000, model=model, rule=RULE)
    RP.add_to(res, ["configuration"])
    return res


def run_impl_only(ctx):
    return run(ctx, model=False)


def replay(ctx, data):
    r = RP.replay(data)
    if r is not None:
        return r
    return P.replay(ctx, "C16", data)
