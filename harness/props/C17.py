"""C17 -- RunStart metadata merges its sources with the documented precedence; scan_id; validator.

Tie: (T) the order of the mappings in the `ChainMap(...)` of `RunEngine._open_run`, the place of
`self.md["scan_id"] = scan_id` relative to validator / normalizer / bundler creation / `open_run`, the
plan-identity keys and the body of `default_scan_id_source` are re-read from the source into
lean/BlueskyVerif/Pure/MetadataGenerated.lean; model and theorems depend on them.
(C) sessions on the real RunEngine (several calls, several open_run attempts per call, random
overlapping dictionaries for RE.md / plan identity / open_run metadata / RE(...) keywords, scheduled and
content-dependent validators, custom normalizers) are replayed on the Lean model `openRun`; outcome,
start document and RE.md must agree after every attempt.

Domain (coordinator ruling): metadata that event_model cannot compose into a schema-valid RunStart
(keys 'uid'/'time', keys containing '.' or '/', scan_id/owner/... of the wrong type) is not valid
RunStart metadata.  The main generators produce composable metadata only; a small malformed stream
keeps such inputs, on which only "no RunStart is emitted and the exception reaches the plan" is
checked -- the scan_id clause is NOT evaluated on sessions containing them.
"""
from __future__ import annotations

import ast
import itertools
import json
import logging

import common as C
import re_probes as RP
import pyexpr as P

MANIFEST = {
    "text": "FULL on the domain 'metadata composable into a schema-valid RunStart'. Theorems (Props/C17.lean) about a "
    "transcription of RunEngine._open_run whose ChainMap order, scan_id store position, plan-identity keys and "
    "default_scan_id_source are regenerated from the source on every run: for ARBITRARY dictionaries of the four sources and "
    "every key the merged metadata carries the value of the highest-precedence source that has it (RE(...) keywords > "
    "open_run metadata > plan identity > new scan_id > RE.md), nothing of RE.md is lost; a RunStart is emitted only with "
    "normalizer(merged) for a merged dict the validator accepted (arbitrary validator / normalizer functions); a rejecting "
    "validator or raising normalizer leaves the engine state (RE.md incl. scan_id, no bundler) exactly as it was; over ANY "
    "history of calls and accepted / validator-rejected / normalizer-rejected / out-of-sequence open_runs the default source "
    "hands out s+1, s+2, ... to the started runs, RE.md['scan_id'] ends at s + #started and is untouched when nothing "
    "started; a user-supplied 'scan_id' overrides the RunStart only, the persistent counter advances regardless.",
    "note": "Trusted: Lean kernel; the extractor (AST shape of _open_run / default_scan_id_source -> MetadataGenerated.lean); "
    "ChainMap / dict semantics as transcribed (tied by the correspondence run); metadata must be composable into a "
    "schema-valid RunStart (event_model.compose_run rejects keys 'uid'/'time', keys with '.' or '/', wrongly typed "
    "scan_id/owner/group/project/data_session/sample) -- on non-composable metadata the code stores the scan_id although no "
    "RunStart is emitted; ruled outside the property's domain; only 'no RunStart, exception reaches the plan' is checked "
    "there (malformed stream). Values are ints, strings or opaque JSON-like values; a custom scan_id_source, callbacks "
    "raising while the start document is dispatched, and mutation of RE.md by validator/normalizer are outside the model.",
    "technique": "Lean 4 proof (first-hit lookup lemma for flattened ChainMaps; history induction for the scan_id) over "
    "source-extracted structure + correspondence run against the real RunEngine",
}
LEAN_MODULES = ["BlueskyVerif.Props.C17"]
DRIVER_MODULES = ["BlueskyVerif.Pure.Metadata"]
DRIVER = "Drivers/C17.lean"
ASSUMPTIONS = [
    "metadata must be composable into a schema-valid RunStart (no key 'uid'/'time', no '.' or '/' in keys, schema types of "
    "scan_id/owner/group/project/data_session/sample respected); on other metadata only 'no RunStart emitted, exception "
    "reaches the plan' is checked and the scan_id clause is not evaluated",
    "the default scan_id_source is installed and RE.md['scan_id'] is absent or an integer",
    "md_validator / md_normalizer are functions of the metadata they are given (arbitrary, possibly different for every "
    "open_run) and do not modify RE.md; no callback raises while the start document is dispatched",
    "metadata values are integers, strings, or other JSON-like values treated as opaque",
]
TRUSTED = ["harness/props/C17.py: AST shape recognition of _open_run / default_scan_id_source -> Pure/MetadataGenerated.lean"]
GEN_PATH = C.LEAN / "BlueskyVerif" / "Pure" / "MetadataGenerated.lean"


# ----------------------------------------------------------------------------- extractor
def _src(n):
    return ast.unparse(n)


def _find_func(tree, cls, name):
    c = P.find_class(tree, cls)
    for n in c.body:
        if isinstance(n, (ast.FunctionDef, ast.AsyncFunctionDef)) and n.name == name:
            return n
    raise P.Untranslatable(f"{cls}.{name} not found")


def extract(ctx=None):
    tree = ast.parse((C.SRC / "run_engine.py").read_text())
    fn = _find_func(tree, "RunEngine", "_open_run")
    body = P.body_wo_doc(fn)
    idx = {}
    chain = None
    plan_keys = None
    old_sid = False
    for i, st in enumerate(body):
        s = _src(st)
        if s == "scan_id = await maybe_await(self.scan_id_source(self.md))":
            idx["sid"] = i
        elif s == "self.md['scan_id'] = await maybe_await(self.scan_id_source(self.md))":
            idx["sid"] = idx["store"] = i
            old_sid = True
        elif s == "self.md['scan_id'] = scan_id":
            if "store" in idx:
                raise P.Untranslatable("_open_run: scan_id stored twice")
            idx["store"] = i
        elif s == "self.md_validator(dict(md))":
            idx["val"] = i
        elif s == "validated = self.md_normalizer(copy.deepcopy(md))":
            idx["norm"] = i
        elif isinstance(st, ast.Assign) and "self._run_bundlers[run_key]" in [_src(t) for t in st.targets]:
            call = st.value
            if not (isinstance(call, ast.Call) and call.args and _src(call.args[0]) == "validated"):
                raise P.Untranslatable("_open_run: the bundler is not created from `validated`")
            idx["bundler"] = i
        elif s == "new_uid = await current_run.open_run(msg)":
            idx["open"] = i
        elif s == "plan_type = type(self._plan).__name__":
            idx["ptype"] = i
        elif s == "plan_name = getattr(self._plan, '__name__', '')":
            idx["pname"] = i
        elif isinstance(st, ast.Assign) and _src(st.targets[0]) == "md" and isinstance(st.value, ast.Call) and _src(st.value.func) == "ChainMap":
            idx["chain"] = i
            chain = []
            for a in st.value.args:
                sa = _src(a)
                if sa == "self._metadata_per_call":
                    chain.append("callKw")
                elif sa == "msg.kwargs":
                    chain.append("openKw")
                elif sa == "self.md":
                    chain.append("persistent")
                elif isinstance(a, ast.Dict) and [_src(v) for v in a.values] == ["scan_id"] and [k.value for k in a.keys] == ["scan_id"]:
                    chain.append("scanId")
                elif isinstance(a, ast.Dict) and sorted(_src(v) for v in a.values) == ["plan_name", "plan_type"] and all(isinstance(k, ast.Constant) and k.value == _src(v) for k, v in zip(a.keys, a.values)):
                    chain.append("planIdentity")
                    plan_keys = [k.value for k in a.keys]
                else:
                    raise P.Untranslatable(f"_open_run: unrecognised ChainMap argument `{sa[:60]}`")
            if st.value.keywords:
                raise P.Untranslatable("_open_run: ChainMap with keywords")
    need = ["sid", "store", "val", "norm", "bundler", "open", "ptype", "pname", "chain"]
    missing = [k for k in need if k not in idx]
    if missing or chain is None or plan_keys is None:
        raise P.Untranslatable(f"_open_run: statements not recognised: {missing}")
    if not (idx["sid"] < idx["chain"] < idx["val"] < idx["norm"] < idx["bundler"] < idx["open"] and max(idx["ptype"], idx["pname"]) < idx["chain"]):
        raise P.Untranslatable("_open_run: statement order not recognised")
    if len(set(chain)) != len(chain) or not {"callKw", "openKw", "planIdentity", "persistent"} <= set(chain):
        raise P.Untranslatable(f"_open_run: ChainMap sources {chain}")
    if old_sid or idx["store"] < idx["val"]:
        stage = "beforeValidator"
        if "scanId" in chain and idx["store"] > idx["chain"]:
            raise P.Untranslatable("_open_run: store between ChainMap construction and validator")
    elif idx["norm"] < idx["store"] < idx["bundler"]:
        stage = "afterNormalizer"
    elif idx["store"] > idx["open"]:
        stage = "afterOpenRun"
    else:
        raise P.Untranslatable("_open_run: position of the scan_id store not recognised")
    if stage != "beforeValidator" and "scanId" not in chain:
        raise P.Untranslatable("_open_run: the new scan_id is neither in the ChainMap nor in self.md when the validator runs")
    # default_scan_id_source
    ds = next((n for n in tree.body if isinstance(n, ast.FunctionDef) and n.name == "default_scan_id_source"), None)
    if ds is None:
        raise P.Untranslatable("default_scan_id_source not found")
    r = P.single_return(ds)
    arg = ds.args.args[0].arg
    if not (
        isinstance(r, ast.BinOp)
        and isinstance(r.op, ast.Add)
        and isinstance(r.left, ast.Call)
        and _src(r.left.func) == f"{arg}.get"
        and len(r.left.args) == 2
        and all(isinstance(x, ast.Constant) for x in r.left.args)
        and isinstance(r.left.args[0].value, str)
        and type(r.left.args[1].value) is int
        and isinstance(r.right, ast.Constant)
        and type(r.right.value) is int
    ):
        raise P.Untranslatable(f"default_scan_id_source: `{_src(r)}` not recognised")
    key, default, step = r.left.args[0].value, r.left.args[1].value, r.right.value
    # the default source is the default, and the per-call keywords are what __call__ stores
    init = _find_func(tree, "RunEngine", "__init__")
    defaults = dict(zip([a.arg for a in init.args.args][-len(init.args.defaults) :], init.args.defaults)) if init.args.defaults else {}
    defaults.update({a.arg: d for a, d in zip(init.args.kwonlyargs, init.args.kw_defaults) if d is not None})
    if "scan_id_source" not in defaults or _src(defaults["scan_id_source"]) != "default_scan_id_source":
        raise P.Untranslatable("RunEngine.__init__: scan_id_source default is not default_scan_id_source")
    call_src = [_src(s) for s in _find_func(tree, "RunEngine", "__call__").body]
    clear_src = [_src(s) for s in _find_func(tree, "RunEngine", "_clear_call_cache").body]
    if "self._metadata_per_call.update(metadata_kw)" not in call_src or "self._metadata_per_call.clear()" not in clear_src or "self._clear_call_cache()" not in call_src:
        raise P.Untranslatable("RunEngine.__call__/_clear_call_cache: handling of _metadata_per_call not recognised")
    out = [
        "-- GENERATED by harness/props/C17.py from src/bluesky/run_engine.py (_open_run, default_scan_id_source) -- do not edit.",
        "namespace BlueskyVerif.Metadata",
        "",
        "/-- the mappings of the ChainMap built in `RunEngine._open_run` -/",
        "inductive Source where",
        "  | callKw | openKw | planIdentity | scanId | persistent",
        "deriving Repr, DecidableEq",
        "",
        "/-- where `_open_run` executes `self.md[\"scan_id\"] = scan_id` -/",
        "inductive StoreStage where",
        "  | beforeValidator | afterNormalizer | afterOpenRun",
        "deriving Repr, DecidableEq",
        "",
        "namespace Generated",
        f"/-- `ChainMap(...)` arguments of _open_run (run_engine.py:{body[idx['chain']].lineno}), highest precedence first -/",
        "def chainOrder : List Source := [" + ", ".join("." + c for c in chain) + "]",
        f"/-- `self.md[\"scan_id\"] = scan_id` is statement {idx['store']} of _open_run (validator {idx['val']}, normalizer {idx['norm']}, bundler {idx['bundler']}, open_run {idx['open']}) -/",
        f"def storeStage : StoreStage := .{stage}",
        f"/-- default_scan_id_source: `{_src(r)}` -/",
        f"def scanIdKey : String := {json.dumps(key)}",
        f"def scanIdDefault : Int := {default}",
        f"def scanIdStep : Int := {step}",
        "/-- keys of the plan-identity mapping, in source order -/",
        "def planIdentityKeys : List String := [" + ", ".join(json.dumps(k) for k in plan_keys) + "]",
        "end Generated",
        "end BlueskyVerif.Metadata",
        "",
    ]
    C.write_if_changed(GEN_PATH, "\n".join(out))
    return {"chainOrder": chain, "storeStage": stage, "scan_id_source": _src(r), "planIdentityKeys": plan_keys, "at": f"run_engine.py:{fn.lineno} (_open_run), :{ds.lineno} (default_scan_id_source)"}


# ----------------------------------------------------------------------------- values
def canon_val(v):
    """int and str stay; every other JSON-like value becomes {"json": canonical text} (opaque to the model)"""
    if isinstance(v, bool) or not isinstance(v, (int, str)):
        return {"json": json.dumps(v, sort_keys=True, default=str)}
    return v


def canon_dict(d):
    return {str(k): canon_val(v) for k, v in d.items()}


# ----------------------------------------------------------------------------- named validators / normalizers
class Rejected(Exception):
    pass


class NormalizerFailed(Exception):
    pass


def validator_accepts(spec, md):
    """the named validators; True = accepts"""
    if spec == "accept":
        return True
    if spec == "reject":
        return False
    if spec == "default":
        return not ("sample" in md and not (hasattr(md["sample"], "keys") or isinstance(md["sample"], str)))
    if spec[0] == "reject_if_has":
        return spec[1] not in md
    if spec[0] == "reject_if_scan_id_ge":
        v = md.get("scan_id")
        return not (isinstance(v, int) and not isinstance(v, bool) and v >= spec[1])
    raise ValueError(spec)


def normalize(spec, md):
    d = dict(md)
    if spec == "identity":
        return d
    if spec == "raise":
        raise NormalizerFailed()
    if spec == "upper":
        return {k.upper(): v for k, v in d.items()}
    if spec[0] == "drop":
        d.pop(spec[1], None)
        return d
    if spec[0] == "set":
        d[spec[1]] = spec[2]
        return d
    raise ValueError(spec)


def composable(md):
    """the domain predicate, asked of event_model itself"""
    import event_model

    try:
        event_model.compose_run(uid="u", time=0.0, metadata=dict(md))
        return True
    except Exception:
        return False


# ----------------------------------------------------------------------------- real implementation
_LOOP = None


def _loop():
    global _LOOP
    if _LOOP is None:
        import asyncio

        _LOOP = asyncio.new_event_loop()
    return _LOOP


def run_impl(case):
    import bluesky.plan_stubs as bps
    from bluesky.run_engine import RunEngine
    from bluesky.utils import IllegalMessageSequence, Msg

    md = dict(case["md"])
    RE = RunEngine(md, context_managers=[], loop=_loop())
    initial_md = canon_dict(RE.md)  # the constructor adds 'versions' to the persistent metadata
    starts = []
    RE.subscribe(lambda name, doc: starts.append(doc), "start")
    cur = {}
    default_validator = RE.md_validator

    def validator(m):
        cur["validator_saw"] = canon_dict(m)
        cur["stage"] = "validator"
        spec = cur["run"].get("validator", "accept")
        if spec == "default":
            try:
                default_validator(m)
            except Exception as e:
                raise Rejected() from e
        elif not validator_accepts(spec, m):
            raise Rejected()
        cur["stage"] = "validated"

    def normalizer(m):
        cur["stage"] = "normalizer"
        out = normalize(cur["run"].get("normalizer", "identity"), m)
        cur["stage"] = "normalized"
        return out

    RE.md_validator = validator
    RE.md_normalizer = normalizer
    attempts = []

    def classify(e):
        if isinstance(e, IllegalMessageSequence):
            return "illegalSequence"
        if isinstance(e, Rejected):
            return "rejected"
        if isinstance(e, NormalizerFailed):
            return "normalizerError"
        if cur.get("stage") == "normalized":
            return "composeError"
        if cur.get("stage") is None:
            return "scanIdError"
        return "error:" + type(e).__name__ + ":" + str(cur.get("stage"))

    def record(outcome, n0, reached_plan):
        ent = {"o": outcome, "md": canon_dict(RE.md), "validator_saw": cur.get("validator_saw"), "reached_plan": reached_plan}
        new = starts[n0:]
        ent["n_starts"] = len(new)
        if new:
            ent["doc"] = canon_dict({k: v for k, v in new[0].items() if k not in ("uid", "time")})
        attempts.append(ent)

    def begin(run):
        cur.clear()
        cur["run"] = run
        return len(starts)

    def gen_plan(runs):
        for run in runs:
            n0 = begin(run)
            try:
                yield from bps.open_run(md=dict(run["open"]))
            except Exception as e:
                record(classify(e), n0, True)
                continue
            record("started", n0, True)
            yield from bps.close_run()

    for call in case["calls"]:
        kw = dict(call["kw"])
        if call["plan_type"] == "generator":
            g = gen_plan(call["runs"])
            g.__name__ = call["plan_name"]
            g.__qualname__ = call["plan_name"]
            RE(g, **kw)
        else:  # a plain list of messages: plan_type 'list', plan_name ''
            run = call["runs"][0]
            n0 = begin(run)
            try:
                RE([Msg("open_run", **dict(run["open"])), Msg("close_run")], **kw)
                record("started", n0, True)
            except Exception as e:
                record(classify(e), n0, True)
    return {"attempts": attempts, "final_md": canon_dict(RE.md), "initial_md": initial_md}


# ----------------------------------------------------------------------------- oracle
SOURCES = ["callKw", "openKw", "planIdentity", "scanId", "persistent"]


def oracle(case, obs):
    """C17 stated directly.  Expected RE.md is tracked from the initial metadata; every attempt is judged
    against the documented precedence (later sources win), the named validator / normalizer and the
    scan_id rule.  Once an attempt's metadata is not composable (outside the domain) only 'no RunStart,
    exception reached the plan' is checked and the scan_id clause is dropped for the rest of the session."""
    bad = []
    exp_md = _decanon(obs["initial_md"])
    if any(k not in exp_md or canon_val(exp_md[k]) != canon_val(v) for k, v in case["md"].items()):
        bad.append(("persistent-md:changed-by-constructor", f"RunEngine({case['md']}).md == {obs['initial_md']}"))
    scan_ok = not isinstance(exp_md.get("scan_id", 0), bool) and isinstance(exp_md.get("scan_id", 0), int)
    tainted = not scan_ok
    it = iter(obs["attempts"])
    for ci, call in enumerate(case["calls"]):
        runs = call["runs"] if call["plan_type"] == "generator" else call["runs"][:1]
        blocked = False
        for ri, run in enumerate(runs):
            try:
                a = next(it)
            except StopIteration:
                bad.append(("harness:missing-attempt", f"call {ci} run {ri}: no observation"))
                return bad
            where = f"call {ci} run {ri} (kw={call['kw']}, open={run['open']}, RE.md before={exp_md}, validator={run.get('validator')}, normalizer={run.get('normalizer')})"
            if blocked or a["o"] in ("illegalSequence", "scanIdError") or a["o"].startswith("error:"):
                # outside the domain (follows a non-composable attempt / malformed RE.md): only 'no start'
                if a["n_starts"] and a["o"] != "started":
                    bad.append(("malformed:start-emitted-by-failed-open_run", where))
                if a["o"].startswith("error:") and not tainted:
                    bad.append(("open_run:unexpected-exception", f"{where}: {a['o']}"))
                exp_md = _decanon(a["md"]) if tainted else exp_md
                continue
            sid = exp_md.get("scan_id", 0) + 1 if not tainted else None
            layers = {
                "persistent": exp_md,
                "scanId": {"scan_id": sid} if sid is not None else {},
                "planIdentity": {"plan_type": call["plan_type"], "plan_name": call["plan_name"]},
                "openKw": run["open"],
                "callKw": call["kw"],
            }
            merged = {}
            for src in ["persistent", "scanId", "planIdentity", "openKw", "callKw"]:  # later sources win
                merged.update(layers[src])
            if tainted:  # scan_id unknown: take what the validator was shown for that key only
                if a.get("validator_saw") and "scan_id" in a["validator_saw"] and "scan_id" not in call["kw"] and "scan_id" not in run["open"]:
                    merged["scan_id"] = _decanon(a["validator_saw"])["scan_id"]
            accepts = None
            vspec = run.get("validator", "accept")
            accepts = validator_accepts(vspec, merged)
            if a.get("validator_saw") is not None and a["validator_saw"] != canon_dict(merged):
                k = _first_diff(a["validator_saw"], canon_dict(merged))
                bad.append((_precedence_sig("validator", k, layers, a["validator_saw"]), f"{where}: the validator was shown {a['validator_saw']}, documented merge gives {canon_dict(merged)}"))
                exp_md = _decanon(a["md"])  # resynchronise so that one defect is not reported under other names
                continue
            if not accepts:
                if a["n_starts"] or a["o"] == "started":
                    bad.append(("validator:start-emitted-despite-rejection", where))
                elif a["o"] != "rejected":
                    bad.append(("validator:rejection-did-not-reach-the-plan", f"{where}: outcome {a['o']}"))
                if not tainted and a["md"] != canon_dict(exp_md):
                    bad.append(("scan_id:consumed-by-rejected-open_run" if _only_scan_id_differs(a["md"], canon_dict(exp_md)) else "validator:RE.md-changed-by-rejected-open_run", f"{where}: RE.md afterwards {a['md']}"))
                    exp_md = _decanon(a["md"])
                continue
            try:
                doc = normalize(run.get("normalizer", "identity"), merged)
            except NormalizerFailed:
                if a["n_starts"] or a["o"] == "started":
                    bad.append(("normalizer:start-emitted-despite-failing-normalizer", where))
                if not tainted and a["md"] != canon_dict(exp_md):
                    bad.append(("scan_id:consumed-by-open_run-with-failing-normalizer", f"{where}: RE.md afterwards {a['md']}"))
                    exp_md = _decanon(a["md"])
                continue
            if not composable(doc):
                # outside the domain: not valid RunStart metadata
                if a["n_starts"] or a["o"] == "started":
                    bad.append(("malformed:start-emitted-for-non-composable-metadata", where))
                if not a["reached_plan"]:
                    bad.append(("malformed:exception-did-not-reach-the-plan", where))
                tainted = True
                blocked = True
                exp_md = _decanon(a["md"])
                continue
            # inside the domain and accepted: exactly one RunStart with normalizer(merged)
            if a["o"] != "started" or a["n_starts"] != 1:
                bad.append(("start:not-emitted-for-accepted-open_run", f"{where}: outcome {a['o']}, {a['n_starts']} start documents"))
                exp_md = _decanon(a["md"])
                continue
            if a["doc"] != canon_dict(doc):
                k = _first_diff(a["doc"], canon_dict(doc))
                if run.get("normalizer", "identity") != "identity" and a["doc"] == canon_dict(merged):
                    sig = "normalizer:not-applied"
                else:
                    sig = _precedence_sig("start", k, layers, a["doc"])
                bad.append((sig, f"{where}: RunStart carries {a['doc']}, documented: {canon_dict(doc)} (first difference at key {k!r})"))
            if not tainted:
                want_md = dict(exp_md)
                want_md["scan_id"] = sid
                if a["md"] != canon_dict(want_md):
                    got_sid = a["md"].get("scan_id")
                    if got_sid != sid:
                        bad.append(("scan_id:step-not-one" if isinstance(got_sid, int) else "scan_id:not-kept-in-RE.md", f"{where}: RE.md['scan_id'] afterwards {got_sid}, expected {sid}"))
                    else:
                        bad.append(("persistent-md:changed-by-open_run", f"{where}: RE.md afterwards {a['md']}, expected {canon_dict(want_md)}"))
                exp_md = _decanon(a["md"])
            else:
                exp_md = _decanon(a["md"])
    return bad


def _decanon(d):
    return {k: (json.loads(v["json"]) if isinstance(v, dict) and set(v) == {"json"} else v) for k, v in d.items()}


def _first_diff(a, b):
    for k in sorted(set(a) | set(b)):
        if a.get(k, "<absent>") != b.get(k, "<absent>"):
            return k
    return None


def _only_scan_id_differs(a, b):
    return {k for k in set(a) | set(b) if a.get(k, "<absent>") != b.get(k, "<absent>")} == {"scan_id"}


def _precedence_sig(where, k, layers, got):
    """name the failing input class: which sources carry the key and whose value was (wrongly) used"""
    have = [s for s in SOURCES if k in layers[s]]
    want = have[0] if have else "nobody"
    gv = got.get(k, "<absent>")
    used = next((s for s in have if canon_val(layers[s][k]) == gv), "<absent>" if gv == "<absent>" else "other-value")
    return f"precedence:{where}:{want}-should-win-but-{used}-used"


# ----------------------------------------------------------------------------- generators
ORD_KEYS = ["a", "b", "c", "purpose", "operator"]
SPECIAL = ["plan_name", "plan_type", "scan_id", "sample", "owner"]


def _val(rng, key):
    if key == "scan_id":
        return rng.choice([0, 1, 5, 17, 100, -3])
    if key == "owner":
        return rng.choice(["me", "you"])
    if key == "sample":
        return rng.choice(["dirt", "Cu", {"color": "red", "n": 5}])
    if key in ("plan_name", "plan_type"):
        return rng.choice(["custom", "scan", 7, None])
    r = rng.random()
    if r < 0.45:
        return rng.randrange(-2, 6)
    if r < 0.8:
        return rng.choice(["x", "y", "zz", ""])
    return rng.choice([None, True, 1.5, [1, 2], {"n": {"deep": 1}}, {}])


def _dict(rng, pool, p_special=0.25, maxn=4):
    n = rng.choice([0, 1, 1, 2, 3, maxn])
    d = {}
    for _ in range(n):
        k = rng.choice(SPECIAL) if rng.random() < p_special else rng.choice(pool)
        d[k] = _val(rng, k)
    return d


def gen_case(rng, malformed=False):
    pool = rng.sample(ORD_KEYS, rng.choice([1, 2, 2, 3]))  # few keys -> many overlaps
    md = _dict(rng, pool, 0.2)
    r = rng.random()
    if r < 0.35:
        md.pop("scan_id", None)
    elif r < 0.5:
        md["scan_id"] = 0
    calls = []
    attempt_no = 0
    for _ in range(rng.choice([1, 2, 2, 3, 4])):
        kw = _dict(rng, pool, 0.25, 3)
        as_list = rng.random() < 0.15
        runs = []
        for _ in range(1 if as_list else rng.choice([1, 1, 2, 3, 4])):
            v = rng.random()
            if v < 0.55:
                vs = "accept"
            elif v < 0.7:
                vs = "reject"
            elif v < 0.8:
                vs = ["reject_if_has", rng.choice(pool + SPECIAL)]
            elif v < 0.9:
                vs = ["reject_if_scan_id_ge", rng.choice([1, 2, 3, 5, 18])]
            else:
                vs = "default"
            n = rng.random()
            if n < 0.6:
                ns = "identity"
            elif n < 0.7:
                ns = ["drop", rng.choice(pool + ["scan_id", "plan_name"])]
            elif n < 0.82:
                k = rng.choice(pool + ["note"])
                ns = ["set", k, _val(rng, k)]
            elif n < 0.9:
                ns = "upper"
            else:
                ns = "raise"
            runs.append({"open": _dict(rng, pool, 0.3), "validator": vs, "normalizer": ns})
            attempt_no += 1
        calls.append({"kw": kw, "plan_type": "list" if as_list else "generator", "plan_name": "" if as_list else rng.choice(["plan", "count", "my_scan"]), "runs": runs, "stop_on_error": as_list})
    case = {"md": md, "calls": calls}
    if malformed:
        case["malformed"] = True
        call = rng.choice(calls)
        run = rng.choice(call["runs"])
        where = rng.choice(["open", "kw", "md"])
        k, v = rng.choice([("uid", "x"), ("time", 1), ("a.b", 1), ("a/b", "s"), ("scan_id", "abc"), ("owner", 3), ("sample", 5), ("md_scan_id", None)])
        if k == "md_scan_id":
            md["scan_id"] = rng.choice(["abc", None])
        elif where == "open":
            run["open"][k] = v
        elif where == "kw" and k.isidentifier():
            call["kw"][k] = v
        else:
            md[k] = v
    return case


def exhaustive_cases():
    """one key 'k' present or absent in each of RE.md / open_run metadata / RE(...) keywords (distinct
    values), the same for 'plan_name' and 'scan_id' (which also have the computed layers), every
    validator outcome x two runs"""
    for key in ("k", "plan_name", "scan_id"):
        vals = {"md": 10, "open": 20, "kw": 30} if key != "plan_name" else {"md": "m", "open": "o", "kw": "c"}
        for in_md, in_open, in_kw in itertools.product([False, True], repeat=3):
            for v1, v2 in itertools.product(["accept", "reject"], repeat=2):
                md = {"keep": "me"}
                if in_md:
                    md[key] = vals["md"]
                runs = [{"open": {key: vals["open"]} if in_open else {}, "validator": v, "normalizer": "identity"} for v in (v1, v2)]
                yield {"md": md, "calls": [{"kw": {key: vals["kw"]} if in_kw else {}, "plan_type": "generator", "plan_name": "plan", "runs": runs, "stop_on_error": False}, {"kw": {}, "plan_type": "generator", "plan_name": "count", "runs": [{"open": {}, "validator": "accept", "normalizer": "identity"}], "stop_on_error": False}]}


def _cases(ctx):
    d = C.VERIF / "corpus" / "C17"
    if d.exists():
        for f in sorted(d.glob("*.json")):
            yield json.loads(f.read_text())["case"]
    yield from exhaustive_cases()
    for _ in range(ctx.budget(500, 12000)):
        yield gen_case(ctx.rng)
    for _ in range(ctx.budget(50, 800)):
        yield gen_case(ctx.rng, malformed=True)


def model_request(case, obs):
    enc = lambda d: canon_dict(d)  # noqa: E731
    calls = []
    for c in case["calls"]:
        runs = []
        for r in c["runs"]:
            ns = r.get("normalizer", "identity")
            if isinstance(ns, list) and ns[0] == "set":
                ns = ["set", ns[1], canon_val(ns[2])]
            runs.append({"open": enc(r["open"]), "validator": r.get("validator", "accept"), "normalizer": ns})
        calls.append({"kw": enc(c["kw"]), "plan_type": c["plan_type"], "plan_name": c["plan_name"], "runs": runs, "stop_on_error": bool(c.get("stop_on_error"))})
    return json.dumps({"md": obs["initial_md"], "calls": calls})


def compare(obs, reply):
    m = json.loads(reply)
    ma, ia = m["attempts"], obs["attempts"]
    for i, (x, y) in enumerate(itertools.zip_longest(ma, ia)):
        if x is None or y is None:
            return {"at": i, "model": x, "impl": y}
        if x["o"] != y["o"] or x["md"] != y["md"] or x.get("doc") != y.get("doc"):
            return {"at": i, "model": x, "impl": {k: y.get(k) for k in ("o", "md", "doc")}}
    if m["final_md"] != obs["final_md"]:
        return {"at": "final", "model": m["final_md"], "impl": obs["final_md"]}
    return None


def _nontrivial(case, obs):
    """a key occurs in at least two sources of one attempt, or an open_run was rejected"""
    if any(a["o"] != "started" for a in obs["attempts"]):
        return True
    for c in case["calls"]:
        for r in c["runs"]:
            layers = [set(case["md"]) | {"scan_id"}, {"plan_name", "plan_type"}, set(r["open"]), set(c["kw"])]
            if any(a & b for a, b in itertools.combinations(layers, 2)):
                return True
    return False


def run(ctx, model=True):
    logging.getLogger("bluesky").setLevel(logging.CRITICAL)
    res = C.Result(
        rule="cases = corpus + exhaustive presence/absence of one key ('k', 'plan_name', 'scan_id') in RE.md / open_run md / RE kwargs x validator "
        "accept/reject x 2 runs + random sessions (1-4 calls x 1-4 open_runs, dictionaries over a small key pool so that sources overlap, "
        "special keys scan_id/plan_name/plan_type/sample/owner, nested and non-scalar values, validators: accept / reject / reject-if-key / "
        "reject-if-scan_id>=n / bluesky default; normalizers: identity / drop / set / upper-case keys / raising; pre-seeded scan_id missing, 0, n) "
        "+ a malformed stream (uid/time/dotted keys, wrongly typed scan_id/owner/sample, non-numeric RE.md['scan_id']) on which only "
        "'no RunStart, exception reaches the plan' is judged; non-trivial = some key in >= 2 sources of one attempt or an open_run rejected"
    )
    res.notes.append("scan_id clause not evaluated on sessions after a non-composable (out-of-domain) open_run; see ASSUMPTIONS")
    cases, obss = [], []
    for case in _cases(ctx):
        obs = run_impl(case)
        cases.append(case)
        obss.append(obs)
        res.seen(case, _nontrivial(case, obs))
        res.count("stream:" + ("malformed" if case.get("malformed") else "main"))
        for a in obs["attempts"]:
            res.count(("malformed-" if case.get("malformed") else "") + "outcome:" + a["o"].split(":")[0])
        for sig, what in oracle(case, obs):
            res.violations.append(C.Violation(sig, what, case))
    if model:
        replies = C.lean_batch(DRIVER, [model_request(c, o) for c, o in zip(cases, obss)])
        for case, obs, rep in zip(cases, obss, replies):
            diff = compare(obs, rep)
            if diff:
                res.disagreements.append({"case": case, "diff": diff})
        for i in (0, len(cases) // 2, len(cases) - 1):
            res.samples.append({"case": cases[i], "impl": [{k: a.get(k) for k in ("o", "md", "doc")} for a in obss[i]["attempts"]], "model": json.loads(replies[i])["attempts"]})
    else:
        res.samples.append({"case": cases[-1], "impl": obss[-1]})
    RP.add_to(res, ["metadata-store"])
    return res


def run_impl_only(ctx):
    return run(ctx, model=False)


def replay(ctx, data):
    r = RP.replay(data)
    if r is not None:
        return r
    logging.getLogger("bluesky").setLevel(logging.CRITICAL)
    res = C.Result()
    case = data.get("case")
    if not case:
        return res
    obs = run_impl(case)
    for sig, what in oracle(case, obs):
        res.violations.append(C.Violation(sig, what, case))
    return res
