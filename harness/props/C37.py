"""C37 -- file-name templates expand exactly like printf.

Tie: (T) the body of `int_replacer` (MultipartRelatedConsolidator.__init__, consolidators.py) is translated
statement by statement into a Lean `Id.run do` block, and the character classes of the regex literal handed to
`re.sub` are read off the source -> lean/BlueskyVerif/Pure/PrintfGenerated.lean; the theorems in Props/C37.lean are
about those generated definitions.  (C) the hand-written models of Python's format-spec mini-language, of C's
printf("%..d") and of the regex matcher are run against the real things on the same inputs: real consolidator
objects (`get_datum_uri`), Python's own `format`, and libc's `snprintf` through ctypes.
"""
from __future__ import annotations

import ast
import ctypes
import itertools
import json
import re

import common as C
import pyexpr as P

MANIFEST = {
    "text": "PARTIAL (one excluded input class, reported as a finding). Lean definitions of C printf(\"%[flags][width][.prec]d\") for "
    "non-negative ints, of Python's format-spec parser/renderer for ints, of the regex groups, and the statement-by-statement "
    "TRANSLATION of int_replacer regenerated from consolidators.py on every run.  Theorem C37_agree_partial: for ALL flag strings over "
    "the regex's flag class, ALL widths, ALL precisions >= width and ALL indices i >= 0 -- except precision value 0 with index 0 -- "
    "'{rewritten}'.format(i) = printf(template, i) (proved on digit strings by induction, no bound).  The excluded class "
    "(%.0d with index 0: printf prints no digit, the consolidator prints '0') is a genuine disagreement on the current tree; "
    "C37_gap_characterised proves exactly what the code prints there; Counterexamples/C37.lean refutes the unrestricted statement.",
    "note": "Trusted: Lean kernel; the Python-subset -> Lean translator in harness/props/C37.py; the hand models of str.format / printf / "
    "regex matching are tied by correspondence runs against CPython's format(), libc snprintf and real TIFF/JPEG consolidator objects; "
    "ASCII templates; C `int` taken as unbounded; literal text around the conversion is handled by the harness only.",
    "technique": "Lean 4 proof over a source-translated function (translator) + correspondence runs of the three hand-written models",
}
LEAN_MODULES = ["BlueskyVerif.Props.C37"]
DRIVER_MODULES = ["BlueskyVerif.Pure.Printf"]
DRIVER = "Drivers/C37.lean"
ASSUMPTIONS = [
    "templates are ASCII; `\\d` / int() on non-ASCII decimal digits are not modelled",
    "C `int` is treated as unbounded in the Lean model of printf (the harness uses indices < 2**31 against snprintf)",
    "the '#' flag has no effect on %d (undefined in ISO C, ignored by glibc) -- modelled as ignored",
    "the Lean theorem is about ONE conversion specification; literal text before/after it (no '%', '{', '}') is copied"
    " verbatim by re.sub/str.format/printf -- exercised by the correspondence run only",
]
TRUSTED = ["harness/props/C37.py translation of the int_replacer statement sub-language into a Lean do-block"]

GEN = C.LEAN / "BlueskyVerif" / "Pure" / "PrintfGenerated.lean"

# ----------------------------------------------------------------------------- translator (Python subset -> Lean do-block)

LEAN_KEYWORDS = {"match", "end", "at", "from", "do", "then", "else", "if", "let", "fun", "in", "with", "where", "by", "have", "show", "open", "repeat", "type", "for", "return", "mut", "instance", "structure", "class", "def", "theorem", "namespace", "section", "import", "variable", "universe"}


def lname(n: str) -> str:
    if not re.fullmatch(r"[A-Za-z_][A-Za-z0-9_]*", n):
        raise P.Untranslatable(f"identifier {n!r}")
    return n + "_" if n in LEAN_KEYWORDS else n


def lchar(c: str) -> str:
    if len(c) != 1 or ord(c) < 32 or ord(c) > 126:
        raise P.Untranslatable(f"non-printable/non-ASCII character {c!r}")
    return {"'": "'\\''", "\\": "'\\\\'"}.get(c, f"'{c}'")


def lstr(s: str) -> str:
    return "[" + ", ".join(lchar(c) for c in s) + "]"


class StmtTr:
    """Types: 'str' (List Char), 'optstr' (Option (List Char)), 'nat', 'prop'."""

    LT = {"str": "Str", "optstr": "Option Str", "nat": "Nat"}

    def __init__(self, env: dict[str, str], fn: ast.AST | None = None):
        self.env = dict(env)
        self.truthy: set[str] = set()
        # names assigned more than once (or augmented) become `let mut`
        cnt: dict[str, int] = {}
        for n in ast.walk(fn) if fn is not None else []:
            if isinstance(n, ast.Assign) and len(n.targets) == 1 and isinstance(n.targets[0], ast.Name):
                cnt[n.targets[0].id] = cnt.get(n.targets[0].id, 0) + 1
            elif isinstance(n, ast.AugAssign) and isinstance(n.target, ast.Name):
                cnt[n.target.id] = cnt.get(n.target.id, 0) + 2
        self.mutable = {k for k, v in cnt.items() if v > 1}

    # -- expressions
    def expr(self, n) -> tuple[str, str]:
        if isinstance(n, ast.Constant):
            if isinstance(n.value, str):
                return f"({lstr(n.value)} : Str)", "str"
            if isinstance(n.value, int) and not isinstance(n.value, bool) and n.value >= 0:
                return f"({n.value} : Nat)", "nat"
            raise P.Untranslatable(f"constant {n.value!r}")
        if isinstance(n, ast.Name):
            if n.id not in self.env:
                raise P.Untranslatable(f"unknown name {n.id}")
            t = self.env[n.id]
            if t == "optstr" and n.id in self.truthy:
                return f"({lname(n.id)}.getD [])", "str"
            return lname(n.id), t
        if isinstance(n, ast.JoinedStr):
            parts = []
            for v in n.values:
                if isinstance(v, ast.Constant) and isinstance(v.value, str):
                    parts.append(lstr(v.value))
                elif isinstance(v, ast.FormattedValue) and v.conversion == -1 and v.format_spec is None:
                    t, ty = self.expr(v.value)
                    if ty == "str":
                        parts.append(t)
                    elif ty == "nat":
                        parts.append(f"natRepr ({t})")
                    else:
                        raise P.Untranslatable(f"f-string field of type {ty}")
                else:
                    raise P.Untranslatable("f-string part " + ast.dump(v)[:120])
            return "(" + " ++ ".join(parts or ["([] : Str)"]) + ")", "str"
        if isinstance(n, ast.Compare) and len(n.ops) == 1:
            op, l, r = n.ops[0], n.left, n.comparators[0]
            if isinstance(op, (ast.In, ast.NotIn)):
                if not (isinstance(l, ast.Constant) and isinstance(l.value, str) and len(l.value) == 1):
                    raise P.Untranslatable("`in` with a non single-character left operand")
                rt, rty = self.expr(r)
                if rty != "str":
                    raise P.Untranslatable(f"`in` on {rty}")
                return f"({lchar(l.value)} {'∈' if isinstance(op, ast.In) else '∉'} {rt})", "prop"
            if type(op) in P.CMP:
                (a, ta), (b, tb) = self.expr(l), self.expr(r)
                if ta == tb == "nat":
                    sym = {"==": "=", "!=": "≠"}.get(P.CMP[type(op)], P.CMP[type(op)])
                    return f"({a} {sym} {b})", "prop"
                raise P.Untranslatable(f"comparison of {ta} and {tb}")  # e.g. max()/</> on strings: not in the sub-language
        if isinstance(n, ast.BoolOp):
            ts = [self.cond(v) for v in n.values]
            return "(" + (" ∧ " if isinstance(n.op, ast.And) else " ∨ ").join(ts) + ")", "prop"
        if isinstance(n, ast.UnaryOp) and isinstance(n.op, ast.Not):
            return f"(¬ {self.cond(n.operand)})", "prop"
        if isinstance(n, ast.BinOp) and isinstance(n.op, (ast.Add, ast.Mult, ast.Sub)):
            (a, ta), (b, tb) = self.expr(n.left), self.expr(n.right)
            if ta == tb == "nat" and isinstance(n.op, (ast.Add, ast.Mult)):
                return f"({a} {'+' if isinstance(n.op, ast.Add) else '*'} {b})", "nat"
            if ta == tb == "str" and isinstance(n.op, ast.Add):
                return f"({a} ++ {b})", "str"
            raise P.Untranslatable(f"binary operator on {ta}, {tb}")
        if isinstance(n, ast.IfExp):
            c, guard = self._guarded_cond(n.test)
            saved = set(self.truthy)
            self.truthy |= guard
            a, ta = self.expr(n.body)
            self.truthy = saved
            b, tb = self.expr(n.orelse)
            if ta != tb or ta == "prop":
                raise P.Untranslatable(f"conditional expression of types {ta}/{tb}")
            return f"(if {c} then {a} else {b})", ta
        if isinstance(n, ast.Call) and isinstance(n.func, ast.Name) and not n.keywords:
            f, args = n.func.id, n.args
            if f == "int" and len(args) == 1:
                a = args[0]
                if isinstance(a, ast.BoolOp) and isinstance(a.op, ast.Or) and len(a.values) == 2 and isinstance(a.values[0], ast.Name) and self.env.get(a.values[0].id) == "optstr" and isinstance(a.values[1], ast.Constant) and isinstance(a.values[1].value, int) and not isinstance(a.values[1].value, bool) and a.values[1].value >= 0:
                    return f"(pyIntOr {lname(a.values[0].id)} {a.values[1].value})", "nat"
                t, ty = self.expr(a)
                if ty == "str":
                    return f"(pyInt {t})", "nat"
                if ty == "nat":
                    return t, "nat"
                raise P.Untranslatable(f"int() of {ty}")
            if f == "len" and len(args) == 1:
                t, ty = self.expr(args[0])
                if ty == "str":
                    return f"(List.length {t})", "nat"
            if f == "str" and len(args) == 1:
                t, ty = self.expr(args[0])
                if ty == "nat":
                    return f"(natRepr {t})", "str"
                if ty == "str":
                    return t, "str"
            if f in ("max", "min") and len(args) == 2:
                (a, ta), (b, tb) = self.expr(args[0]), self.expr(args[1])
                if ta == tb == "nat":
                    return f"({f} {a} {b})", "nat"
                raise P.Untranslatable(f"{f}() of {ta}, {tb} (only integers are in the sub-language)")
        raise P.Untranslatable(ast.dump(n)[:200])

    def _guarded_cond(self, n) -> tuple[str, set[str]]:
        if isinstance(n, ast.Name) and self.env.get(n.id) == "optstr":
            return f"(truthy {lname(n.id)} = true)", {n.id}
        return self.cond(n), set()

    def cond(self, n) -> str:
        if isinstance(n, ast.Name) and self.env.get(n.id) == "optstr":
            return f"(truthy {lname(n.id)} = true)"
        t, ty = self.expr(n)
        if ty == "prop":
            return t
        if ty == "str":
            return f"({t} ≠ [])"
        if ty == "nat":
            return f"({t} ≠ 0)"
        raise P.Untranslatable(f"condition of type {ty}")

    # -- statements
    def block(self, stmts, ind: int, nested: bool) -> list[str]:
        out = []
        pad = "  " * ind
        returns = bool(stmts) and isinstance(stmts[-1], ast.Return)
        for st in stmts:
            if isinstance(st, ast.Expr) and isinstance(st.value, ast.Constant) and isinstance(st.value.value, str):
                continue  # docstring
            if isinstance(st, ast.Assign) and len(st.targets) == 1 and isinstance(st.targets[0], ast.Name):
                name = st.targets[0].id
                t, ty = self.expr(st.value)
                if ty not in self.LT:
                    raise P.Untranslatable(f"assignment of {ty}")
                if name in self.env:
                    if self.env[name] != ty:
                        raise P.Untranslatable(f"{name} changes type {self.env[name]} -> {ty}")
                    out.append(f"{pad}{lname(name)} := {t}")
                else:
                    if nested and not returns:
                        raise P.Untranslatable(f"{name} first assigned in a branch that does not return")
                    self.env[name] = ty
                    out.append(f"{pad}let {'mut ' if name in self.mutable else ''}{lname(name)} : {self.LT[ty]} := {t}")
            elif isinstance(st, ast.AugAssign) and isinstance(st.op, ast.Add) and isinstance(st.target, ast.Name) and st.target.id in self.env:
                name = st.target.id
                t, ty = self.expr(st.value)
                if self.env[name] != ty or ty not in ("str", "nat"):
                    raise P.Untranslatable(f"{name} += {ty}")
                out.append(f"{pad}{lname(name)} := {lname(name)} {'++' if ty == 'str' else '+'} {t}")
            elif isinstance(st, ast.If):
                c, guard = self._guarded_cond(st.test)
                out.append(f"{pad}if {c} then")
                saved_env, saved_truthy = dict(self.env), set(self.truthy)
                self.truthy |= guard
                out += self.block(st.body, ind + 1, True)
                self.env, self.truthy = dict(saved_env), set(saved_truthy)
                if st.orelse:
                    out.append(f"{pad}else")
                    out += self.block(st.orelse, ind + 1, True)
                    self.env, self.truthy = dict(saved_env), set(saved_truthy)
            elif isinstance(st, ast.Return) and st.value is not None:
                t, ty = self.expr(st.value)
                if ty != "str":
                    raise P.Untranslatable(f"returns {ty}")
                out.append(f"{pad}return {t}")
            else:
                raise P.Untranslatable("statement " + ast.dump(st)[:160])
        if not out:
            out.append(f"{pad}pure ()")
        return out


RE_SHAPE = re.compile(r"^%\(\[([^\]\\]+)\]\*\)\(\\d\+\)\?\(\?:\\\.\(\\d\+\)\)\?\(\[([A-Za-z]+)\]\)$")


def _find_int_replacer(tree):
    cls = P.find_class(tree, "MultipartRelatedConsolidator")
    init = next((n for n in cls.body if isinstance(n, ast.FunctionDef) and n.name == "__init__"), None)
    if init is None:
        raise P.Untranslatable("MultipartRelatedConsolidator.__init__ not found")
    subs = [n for n in ast.walk(init) if isinstance(n, ast.Call) and P.dotted(n.func) == "re.sub"]
    if len(subs) != 1:
        raise P.Untranslatable(f"expected exactly one re.sub call in __init__, found {len(subs)}")
    call = subs[0]
    if len(call.args) != 3 or call.keywords or not (isinstance(call.args[0], ast.Constant) and isinstance(call.args[0].value, str)) or not isinstance(call.args[1], ast.Name):
        raise P.Untranslatable("re.sub call shape not recognised")
    fn = next((n for n in init.body if isinstance(n, ast.FunctionDef) and n.name == call.args[1].id), None)
    if fn is None:
        raise P.Untranslatable(f"replacement function {call.args[1].id} not found in __init__")
    return call.args[0].value, fn, call.lineno


def extract(ctx):
    src = (C.SRC / "consolidators.py").read_text()
    tree = ast.parse(src)
    pattern, fn, sub_line = _find_int_replacer(tree)
    m = RE_SHAPE.match(pattern)
    if not m:
        raise P.Untranslatable(f"regex {pattern!r} is not of the shape %([flags]*)(\\d+)?(?:\\.(\\d+))?([types])")
    flag_class, type_class = m.group(1), m.group(2)
    if "-" in flag_class[1:-1]:
        raise P.Untranslatable("character range in the flag class")
    if len(set(flag_class)) != len(flag_class):
        raise P.Untranslatable("duplicate character in the flag class")
    if len(fn.args.args) != 1 or fn.args.vararg or fn.args.kwarg or fn.args.kwonlyargs:
        raise P.Untranslatable("int_replacer signature")
    marg = fn.args.args[0].arg
    body = P.body_wo_doc(fn)
    # header: a, b, c, d = match.groups()
    h = body[0] if body else None
    ok = isinstance(h, ast.Assign) and len(h.targets) == 1 and isinstance(h.targets[0], ast.Tuple) and all(isinstance(e, ast.Name) for e in h.targets[0].elts) and isinstance(h.value, ast.Call) and P.dotted(h.value.func) == f"{marg}.groups" and not h.value.args and not h.value.keywords
    if not ok or len(h.targets[0].elts) != 4:
        raise P.Untranslatable("first statement is not `flags, width, precision, type_char = match.groups()`")
    names = [e.id for e in h.targets[0].elts]
    if len(set(names)) != 4:
        raise P.Untranslatable("group names not distinct")
    types = ["str", "optstr", "optstr", "str"]  # group 1 and 4 always participate; 2 and 3 are optional
    tr = StmtTr(dict(zip(names, types)), fn)
    lines = tr.block(body[1:], 1, False)
    sig = " ".join(f"({lname(n)} : {StmtTr.LT[t]})" for n, t in zip(names, types))
    out = [
        "-- GENERATED by harness/props/C37.py from src/bluesky/consolidators.py -- do not edit.",
        "import BlueskyVerif.Pure.PyStr",
        "namespace BlueskyVerif.Printf",
        "open BlueskyVerif.PyStr",
        "",
        f"/-- characters of the flag class of the regex handed to re.sub (consolidators.py:{sub_line}): {pattern} -/",
        f"def flagClass : List Char := {lstr(flag_class)}",
        "/-- conversion characters accepted by the regex -/",
        f"def typeClass : List Char := {lstr(type_class)}",
        "",
        f"/-- `{fn.name}` (consolidators.py:{fn.lineno}), translated statement by statement; the arguments are the regex groups -/",
        f"def intReplacer {sig} : Str := Id.run do",
        *lines,
        "",
        "end BlueskyVerif.Printf",
        "",
    ]
    C.write_if_changed(GEN, "\n".join(out))
    return {"regex": pattern, "regex_at": f"consolidators.py:{sub_line}", "flag_class": flag_class, "type_class": type_class, "int_replacer_at": f"consolidators.py:{fn.lineno}", "int_replacer_lean": lines, "group_names": names}


# ----------------------------------------------------------------------------- ground truth: libc printf, CPython format, re

_libc = ctypes.CDLL(None)
_libc.snprintf.restype = ctypes.c_int
INT_MAX = 2**31 - 1


def c_printf(fmt: str, i: int) -> str:
    """libc's snprintf(fmt, (int)i) -- the ground truth for C printf."""
    assert 0 <= i <= INT_MAX
    need = _libc.snprintf(None, ctypes.c_size_t(0), fmt.encode("ascii"), ctypes.c_int(i))
    if need < 0:
        raise OverflowError("snprintf failed")
    buf = ctypes.create_string_buffer(need + 1)
    _libc.snprintf(buf, ctypes.c_size_t(need + 1), fmt.encode("ascii"), ctypes.c_int(i))
    return buf.value.decode("ascii")


_DESC = {"data_keys": {"k": {"shape": [1, 2, 3], "dtype": "array", "dtype_numpy": "<f8", "external": "STREAM:"}}, "uid": "d"}
_URI = "file://localhost/data/"
_EXT = {"tiff": ("multipart/related;type=image/tiff", ".tif"), "jpeg": ("multipart/related;type=image/jpeg", ".jpg")}


def conv_of(case) -> str:
    return "%" + case["flags"] + case["width"] + ("." + case["prec"] if case["prec"] is not None else "") + "d"


def make_consolidator(case):
    from bluesky.consolidators import consolidator_factory

    mimetype, ext = _EXT[case.get("fmt", "tiff")]
    lead = {"plain": "", "s1": "%s", "s2": "%s%s"}[case["mode"]]
    template = lead + case["prefix"] + conv_of(case) + case["suffix"] + ext
    params = {"chunk_shape": (1,), "template": template}
    if case["mode"] != "plain":
        params["filename"] = case["filename"]
    sres = {"data_key": "k", "mimetype": mimetype, "uri": _URI, "parameters": params, "uid": "s"}
    return consolidator_factory(sres, _DESC), ext


def expected_literal(case):
    """the literal text around the conversion after the %s substitution (independent of the code)"""
    pre = (case["filename"] if case["mode"] != "plain" else "") + case["prefix"]
    return pre, case["suffix"]


def run_derive(case):
    """Real code path: constructor (regex + int_replacer) then get_datum_uri(i) for every index."""
    try:
        cons, ext = make_consolidator(case)
    except Exception as e:  # noqa: BLE001
        return {"ctor": type(e).__name__}
    pre, suf = expected_literal(case)
    tm = cons.template
    obs = {"ctor": "ok", "template": tm, "rewrite": None, "outs": []}
    if tm.startswith(pre) and tm.endswith(suf + ext):
        obs["rewrite"] = tm[len(pre) : len(tm) - len(suf + ext)]
    for i in case["indices"]:
        try:
            u = cons.get_datum_uri(i)
        except Exception as e:  # noqa: BLE001
            obs["outs"].append({"err": type(e).__name__})
            continue
        head, tail = _URI + pre, suf + ext
        mid = u[len(head) : len(u) - len(tail)] if (u.startswith(head) and u.endswith(tail) and len(u) >= len(head) + len(tail)) else None
        obs["outs"].append({"uri": u, "mid": mid})
    if case.get("consume"):
        # the same names must reach the assets when stream datums are consumed
        a, b = case["consume"]
        try:
            cons.consume_stream_datum({"indices": {"start": a, "stop": b}, "seq_nums": {"start": a + 1, "stop": b + 1}, "descriptor": "d", "stream_resource": "s", "uid": "x"})
            obs["assets"] = [x.data_uri for x in cons.assets]
        except Exception as e:  # noqa: BLE001
            obs["assets"] = [type(e).__name__]
    return obs


def in_grammar(case) -> bool:
    w, p = case["width"], case["prec"]
    return p is None or int(p) >= int(w or 0)


FLAG_NAMES = {"-": "minus", "+": "plus", " ": "space", "#": "hash", "0": "zero"}


def sig_of(case, i) -> str:
    """names the failing input class: which flags, whether a width / precision is present"""
    if case["prec"] is not None and int(case["prec"]) == 0 and i == 0:
        return "int_replacer:precision-0:index-0"
    fl = ".".join(FLAG_NAMES.get(c, "x%02x" % ord(c)) for c in sorted(set(case["flags"]))) or "none"
    return f"printf-mismatch:{fl}:{'w' if case['width'] else '-'}{'p' if case['prec'] is not None else '-'}"


def oracle_derive(case, obs):
    """The property on the implementation's observation: derived name == uri + literal + printf(conv, i) + literal."""
    bad = []
    if not in_grammar(case):
        return bad
    conv = conv_of(case)
    pre, suf = expected_literal(case)
    ext = _EXT[case.get("fmt", "tiff")][1]
    if obs["ctor"] != "ok":
        return [("int_replacer:constructor-raises:" + obs["ctor"], f"template with conversion {conv!r}: constructor raised {obs['ctor']}")]
    for i, o in zip(case["indices"], obs["outs"]):
        want = _URI + pre + c_printf(conv, i) + suf + ext
        got = o.get("uri", o.get("err"))
        if got != want:
            bad.append((sig_of(case, i), f"template {conv!r} (rewritten to {obs['template']!r}), index {i}: get_datum_uri gives {got!r}, printf gives {want!r}"))
    if "assets" in obs:
        a, b = case["consume"]
        want = [_URI + pre + c_printf(conv, i) + suf + ext for i in range(a, b)]
        if obs["assets"] != want:
            i = next((a + k for k, (x, y) in enumerate(zip(obs["assets"], want)) if x != y), a)
            bad.append((sig_of(case, i) if len(obs["assets"]) == len(want) else "int_replacer:asset-count", f"template {conv!r}: assets after consuming indices [{a},{b}) are {obs['assets'][:3]}..., printf gives {want[:3]}..."))
    return bad


# ----------------------------------------------------------------------------- case generation

FLAG_STRINGS = ["", "-", "+", " ", "0", "#", "00", "-0", "0-", "+ ", " +", "+0", " 0", "-+", "- ", "-#", "#0", "-+0", "-+0# ", " 0+", "+-", "0+ -#", "##", "--"]
SAFE = "abcXYZ019_-/"


def _lit(rng, n):
    return "".join(rng.choice(SAFE) for _ in range(n))


def exhaustive_derive(big: bool):
    widths = ["", "1", "2", "5", "10"] + (["3", "12", "20"] if big else [])
    precs = [None, "0", "1", "2", "5", "10", "007"] + (["00", "3", "12", "21"] if big else [])
    idx = [0, 1, 9, 10, 99, 100, 4242, 99999, 100000, 1234567890, INT_MAX] if big else [0, 7, 10, 42, 99999, INT_MAX]
    flags = FLAG_STRINGS if big else FLAG_STRINGS[:14] + ["-+0# "]
    for f, w, p in itertools.product(flags, widths, precs):
        yield {"kind": "derive", "mode": "plain", "filename": "", "prefix": "img_", "suffix": "", "flags": f, "width": w, "prec": p, "indices": idx}


def gen_derive(rng, flag_class):
    nf = rng.choice([0, 0, 1, 1, 2, 3, 5])
    flags = "".join(rng.choice(flag_class) for _ in range(nf))
    r = rng.random()
    wv = 0 if r < 0.3 else rng.randint(1, 12) if r < 0.8 else rng.randint(13, 60) if r < 0.97 else rng.randint(100, 3000)
    width = str(wv) if wv else ""
    r = rng.random()
    if r < 0.4:
        prec = None
    else:
        r2 = rng.random()
        pv = wv if r2 < 0.25 else wv + rng.randint(0, 3) if r2 < 0.6 else rng.randint(0, 15) if r2 < 0.9 else rng.randint(0, 70)
        prec = "0" * rng.choice([0, 0, 0, 1, 2]) + str(pv)
    nd = rng.choice([1, 1, 2, 3, 5, 8, 10])
    idx = sorted({0, rng.randint(0, 9), min(INT_MAX, rng.randint(10 ** (nd - 1), 10**nd)), min(INT_MAX, 10 ** rng.randint(0, 9))})
    case = {"kind": "derive", "mode": rng.choice(["plain", "plain", "s1", "s2"]), "filename": _lit(rng, rng.randint(0, 5)), "prefix": _lit(rng, rng.randint(0, 4)), "suffix": _lit(rng, rng.randint(0, 3)).replace("/", "_"), "flags": flags, "width": width, "prec": prec, "indices": idx, "fmt": rng.choice(["tiff", "jpeg"])}
    if rng.random() < 0.15:
        a = rng.randint(0, 12)
        case["consume"] = [a, a + rng.randint(0, 4)]
    return case


def gen_text(rng, alphabet, n):
    return "".join(rng.choice(alphabet) for _ in range(n))


def gen_match(rng, flag_class):
    """strings for the regex model: mostly near-misses of the conversion grammar"""
    r = rng.random()
    if r < 0.5:
        t = "%" + gen_text(rng, flag_class + "0", rng.randint(0, 3)) + gen_text(rng, "0123456789", rng.randint(0, 3)) + rng.choice(["", ".", ".", ".."]) + gen_text(rng, "0123456789", rng.randint(0, 3)) + rng.choice(["d", "d", "d", "i", "f", "ld", "", "s", "x"]) + gen_text(rng, "d5.%x_", rng.randint(0, 3))
    else:
        t = rng.choice(["%", "%", "x", ""]) + gen_text(rng, flag_class + "0123456789..ddd%x", rng.randint(0, 8))
    return {"kind": "match", "t": t}


PYFMT_ALPHABET = "<>=^+- #00123456789dd"


def gen_pyfmt(rng):
    r = rng.random()
    if r < 0.7:
        spec = rng.choice(["", "", "<", ">", "=", "^", "x<", "0<", "*^", " >", "+=", "<<", "0="]) + rng.choice(["", "", "+", "-", " "]) + rng.choice(["", "", "#"]) + rng.choice(["", "", "0", "00"]) + rng.choice(["", str(rng.randint(0, 30)), str(rng.randint(1, 9))]) + rng.choice(["d", "d", ""])
    else:
        spec = gen_text(rng, PYFMT_ALPHABET + ",_.xz", rng.randint(0, 6))
    return {"kind": "pyfmt", "spec": spec, "i": rng.choice([0, 7, 42, rng.randint(0, 10**6), 10 ** rng.randint(0, 25)])}


def gen_printf(rng):
    flags = gen_text(rng, "-+ #0", rng.choice([0, 0, 1, 1, 2, 3, 6]))
    width = rng.choice(["", "", str(rng.randint(1, 15)), str(rng.randint(1, 80))])
    prec = rng.choice([None, None, "", "0", "00", str(rng.randint(0, 15)), "0" + str(rng.randint(0, 30)), str(rng.randint(0, 80))])
    t = "%" + flags + width + ("." + prec if prec is not None else "") + rng.choice(["d", "d", "d", "i"])
    return {"kind": "printf", "t": t, "i": rng.choice([0, 0, 3, 42, rng.randint(0, 10**5), rng.randint(0, INT_MAX), INT_MAX])}


def _cases(ctx, facts):
    flag_class = facts.get("flag_class") or "-+#0 "
    corpus = C.VERIF / "corpus" / "C37"
    if corpus.exists():
        for f in sorted(corpus.glob("*.json")):
            yield json.loads(f.read_text())["case"]
    big = ctx.tier == "thorough" or ctx.deep
    yield from exhaustive_derive(big)
    for _ in range(ctx.budget(900, 40000)):
        yield gen_derive(ctx.rng, flag_class)
    for _ in range(ctx.budget(400, 15000)):
        yield gen_match(ctx.rng, flag_class)
    for _ in range(ctx.budget(500, 20000)):
        yield gen_pyfmt(ctx.rng)
    for _ in range(ctx.budget(500, 20000)):
        yield gen_printf(ctx.rng)


# ----------------------------------------------------------------------------- observations of the other three ground truths

OUTSIDE_PYFMT = set(",_.xzbcoXneEfFgG%")


def run_pyfmt(case):
    try:
        return {"out": format(case["i"], case["spec"])}
    except ValueError:
        return {"out": None}


def run_printf(case):
    return {"out": c_printf(case["t"], case["i"])}


def run_match(case, pattern):
    m = re.match(pattern, case["t"])
    if not m:
        return {"groups": None}
    return {"groups": list(m.groups()), "rest": case["t"][m.end() :]}


def lean_lines(case):
    """requests for the Lean driver for one case"""
    if case["kind"] == "derive":
        conv = conv_of(case)
        return [json.dumps({"k": "derive", "t": conv, "i": i}) for i in case["indices"]] + [json.dumps({"k": "printf", "t": conv, "i": i}) for i in case["indices"]]
    if case["kind"] == "match":
        return [json.dumps({"k": "match", "t": case["t"]})]
    if case["kind"] == "pyfmt":
        return [json.dumps({"k": "pyfmt", "spec": case["spec"], "i": case["i"]})]
    return [json.dumps({"k": "printf", "t": case["t"], "i": case["i"]})]


def compare(case, obs, replies):
    """model vs implementation / ground truth -> list of differences"""
    diffs = []
    if case["kind"] == "derive":
        n = len(case["indices"])
        conv = conv_of(case)
        for k, i in enumerate(case["indices"]):
            m = json.loads(replies[k])
            mp = json.loads(replies[n + k])
            if obs["ctor"] != "ok":
                diffs.append({"what": "constructor raised", "impl": obs["ctor"]})
                break
            if m["rewrite"] != obs["rewrite"]:
                diffs.append({"what": "rewritten template", "model": m["rewrite"], "impl": obs["rewrite"], "full_template": obs["template"]})
            if m["out"] != obs["outs"][k].get("mid"):
                diffs.append({"what": "derived text", "index": i, "model": m["out"], "impl": obs["outs"][k]})
            want = c_printf(conv, i)
            if mp["out"] != want:
                diffs.append({"what": "printf model vs libc", "index": i, "model": mp["out"], "libc": want})
        return diffs
    m = json.loads(replies[0])
    if case["kind"] == "pyfmt":
        if m["out"] is None:
            if obs["out"] is not None and not (set(case["spec"]) & OUTSIDE_PYFMT):
                diffs.append({"what": "format() model rejects a spec of its own sub-language", "model": None, "python": obs["out"]})
        elif m["out"] != obs["out"]:
            diffs.append({"what": "format() model vs CPython", "model": m["out"], "python": obs["out"]})
        return diffs
    if m != obs:
        diffs.append({"what": case["kind"] + " model vs ground truth", "model": m, "truth": obs})
    return diffs


def _nontrivial(case, obs):
    if case["kind"] == "derive":
        return bool(case["flags"] or case["width"] or case["prec"] is not None)
    if case["kind"] == "match":
        return obs["groups"] is not None
    if case["kind"] == "pyfmt":
        return obs["out"] is not None and len(case["spec"]) > 1
    return len(case["t"]) > 2


def _facts():
    src = (C.SRC / "consolidators.py").read_text()
    try:
        pattern, _, _ = _find_int_replacer(ast.parse(src))
        m = RE_SHAPE.match(pattern)
        return {"regex": pattern, "flag_class": m.group(1) if m else None}
    except Exception:  # noqa: BLE001
        return {"regex": None, "flag_class": None}


def run(ctx, model=True):
    res = C.Result(
        rule="cases = corpus + exhaustive flags x widths x precisions x indices (plain template) + random conversions with literal prefix/suffix, "
        "%s substitution, tiff/jpeg, some through consume_stream_datum (real consolidator objects; oracle = libc snprintf) + random strings for the "
        "regex model (vs re.match with the source's pattern) + random format specs (vs CPython format) + random C conversions (vs libc snprintf); "
        "non-trivial = a conversion with flags/width/precision, a string the regex matches, a spec longer than one character"
    )
    facts = _facts()
    pattern = facts["regex"] or r"%([-+#0 ]*)(\d+)?(?:\.(\d+))?([d])"
    cases, obss, lines, spans = [], [], [], []
    for case in _cases(ctx, facts):
        kind = case["kind"]
        obs = run_derive(case) if kind == "derive" else run_match(case, pattern) if kind == "match" else run_pyfmt(case) if kind == "pyfmt" else run_printf(case)
        cases.append(case)
        obss.append(obs)
        res.seen(case, _nontrivial(case, obs))
        res.count("kind:" + kind)
        if kind == "derive":
            res.count("derive:" + ("precision" if case["prec"] is not None else "no-precision") + (":in-grammar" if in_grammar(case) else ":precision<width"))
            res.count("derive:evaluations", len(case["indices"]))
            for sig, what in oracle_derive(case, obs):
                v = dict(case)
                res.violations.append(C.Violation(sig, what, v))
        if model:
            ls = lean_lines(case)
            spans.append((len(lines), len(ls)))
            lines += ls
    if model:
        replies = C.lean_batch(DRIVER, lines)
        for case, obs, (a, n) in zip(cases, obss, spans):
            for d in compare(case, obs, replies[a : a + n]):
                res.disagreements.append({"case": case, **d})
        picks = [next((k for k, c in enumerate(cases) if c["kind"] == "derive" and c["prec"] is not None and c["flags"]), 0), len(cases) // 3, len(cases) - 1]
        for k in picks:
            a, n = spans[k]
            res.samples.append({"case": cases[k], "impl": obss[k], "model": [json.loads(r) for r in replies[a : a + n]]})
    else:
        res.samples.append({"case": cases[-1], "impl": obss[-1]})
    # minimise: report each violated signature on its smallest case
    best = {}
    for v in res.violations:
        key = v.sig
        size = (len(conv_of(v.case)), len(json.dumps(v.case)))
        if key not in best or size < best[key][0]:
            best[key] = (size, v)
    res.violations = [_shrink(v) for _, v in best.values()]
    return res


def _shrink(v):
    """keep only the first failing index, drop the literal decoration if the failure persists"""
    case = dict(v.case)
    for cand in ({**case, "mode": "plain", "filename": "", "prefix": "", "suffix": "", "consume": None}, case):
        cand = {k: x for k, x in cand.items() if x is not None or k == "prec"}
        for i in cand["indices"]:
            c1 = {**cand, "indices": [i]}
            bad = oracle_derive(c1, run_derive(c1))
            hit = [b for b in bad if b[0] == v.sig]
            if hit:
                return C.Violation(v.sig, hit[0][1], c1)
    return v


def run_impl_only(ctx):
    return run(ctx, model=False)


def replay(ctx, data):
    res = C.Result()
    case = data.get("case")
    if not case or case.get("kind") != "derive":
        return res
    for sig, what in oracle_derive(case, run_derive(case)):
        res.violations.append(C.Violation(sig, what, case))
    return res
