"""C37 -- file-name templates expand exactly like printf.

Tie: (T) the body of `int_replacer` (MultipartRelatedConsolidator.__init__, consolidators.py) is translated
statement by statement into a Lean `Id.run do` block, and the character classes of the regex literal handed to
`re.sub` are read off the source -> lean/BlueskyVerif/Pure/PrintfGenerated.lean; the theorems in Props/C37.lean are
about those generated definitions.  (C) the hand-written models of Python's format-spec mini-language, of C's
printf("%..d") and of the regex matcher are run against the real things on the same inputs: real consolidator
objects (`get_datum_uri`), Python's own `format`, and libc's `snprintf` through ctypes.
"""
from __future__ import annotations

import ast
import ctypes
import itertools
import json
import re

import common as C
import pyexpr as P

MANIFEST = {
    "text": "PARTIAL (one excluded input class, reported as a finding). Lean definitions of C printf(\"%[flags][width][.prec]d\") for "
    "non-negative ints, of Python's format-spec parser/renderer for ints, of the regex groups, and the statement-by-statement "
    "TRANSLATION of int_replacer regenerated from consolidators.py on every run.  Theorem C37_agree_partial: for ALL flag strings over "
    "the regex's flag class, ALL widths, ALL precisions >= width and ALL indices i >= 0 -- except precision value 0 with index 0 -- "
    "'{rewritten}'.format(i) = printf(template, i) (proved on digit strings by induction, no bound).  The excluded class "
    "(%.0d with index 0: printf prints no digit, the consolidator prints '0') is a genuine disagreement on the current tree; "
    "C37_gap_characterised proves exactly what the code prints there; Counterexamples/C37.lean refutes the unrestricted statement.",
    "note": "Trusted: Lean kernel; the Python-subset -> Lean translator in harness/props/C37.py; the hand models of str.format / printf / "
    "regex matching are tied by correspondence runs against CPython's format(), libc snprintf and real TIFF/JPEG consolidator objects; "
    "ASCII templates; C `int` taken as unbounded; literal text around the conversion is handled by the harness only.",
    "technique": "Lean 4 proof over a source-translated function (translator) + correspondence runs of the three hand-written models",
}
LEAN_MODULES = ["BlueskyVerif.Props.C37"]
DRIVER_MODULES = ["BlueskyVerif.Pure.Printf"]
DRIVER = "Drivers/C37.lean"
ASSUMPTIONS = [
    "templates are ASCII; `\\d` / int() on non-ASCII decimal digits are not modelled",
    "C `int` is treated as unbounded in the Lean model of printf (the harness uses indices < 2**31 against snprintf)",
    "the '#' flag has no effect on %d (undefined in ISO C, ignored by glibc) -- modelled as ignored",
    "the Lean theorem is about ONE conversion specification; literal text before/after it (no '%', '{', '}') is copied"
    " verbatim by re.sub/str.format/printf -- exercised by the correspondence run only",
]
TRUSTED = ["harness/props/C37.py translation of the int_replacer statement sub-language into a Lean do-block"]

GEN = C.LEAN / "BlueskyVerif" / "Pure" / "PrintfGenerated.lean"

# ----------------------------------------------------------------------------- translator (Python subset -> Lean do-block)

LEAN_KEYWORDS = {"match", "end", "at", "from", "do", "then", "else", "if", "let", "fun", "in", "with", "where", "by", "have", "show", "open", "repeat", "type", "for", "return", "mut", "instance", "structure", "class", "def", "theorem", "namespace", "section", "import", "variable", "universe"}


def lname(n: str) -> str:
    if not re.fullmatch(r"[A-Za-z_][A-Za-z0-9_]*", n):
        raise P.Untranslatable(f"identifier {n!r}")
    return n + "_" if n in LEAN_KEYWORDS else n


def lchar(c: str) -> str:
    if len(c) != 1 or ord(c) < 32 or ord(c) > 126:
        raise P.Untranslatable(f"non-printable/non-ASCII character {c!r}")
    return {"'": "'\\''", "\\": "'\\\\'"}.get(c, f"'{c}'")


def lstr(s: str) -> str:
    return "[" + ", ".join(lchar(c) for c in s) + "]"


class StmtTr:
    """Types: 'str' (List Char), 'optstr' (Option (List Char)), 'nat', 'prop'."""

    LT = {"str": "Str", "optstr": "Option Str", "nat": "Nat"}

    def __init__(self, env: dict[str, str], fn: ast.AST | None = None):
        self.env = dict(env)
        self.truthy: set[str] = set()
        # names assigned more than once (or augmented) become `let mut`
        cnt: dict[str, int] = {}
        for n in ast.walk(fn) if fn is not None else []:
            if isinstance(n, ast.Assign) and len(n.targets) == 1 and isinstance(n.targets[0], ast.Name):
                cnt[n.targets[0].id] = cnt.get(n.targets[0].id, 0) + 1
            elif isinstance(n, ast.AugAssign) and isinstance(n.target, ast.Name):
                cnt[n.target.id] = cnt.get(n.target.id, 0) + 2
        self.mutable = {k for k, v in cnt.items() if v > 1}

    # -- expressions
    def expr(self, n) -> tuple[str, str]:
        if isinstance(n, ast.Constant):
            if isinstance(n.value, str):
                return f"({lstr(n.value)} : Str)", "str"
            if isinstance(n.value, int) and not isinstance(n.value, bool) and n.value >= 0:
                return f"({n.value} : Nat)", "nat"
            raise P.Untranslatable(f"constant {n.value!r}")
        if isinstance(n, ast.Name):
            if n.id not in self.env:
                raise P.Untranslatable(f"unknown name {n.id}")
            t = self.env[n.id]
            if t == "optstr" and n.id in self.truthy:
                return f"({lname(n.id)}.getD [])", "str"
            return lname(n.id), t
        if isinstance(n, ast.JoinedStr):
            parts = []
            for v in n.values:
                if isinstance(v, ast.Constant) and isinstance(v.value, str):
                    parts.append(lstr(v.value))
                elif isinstance(v, ast.FormattedValue) and v.conversion == -1 and v.format_spec is None:
                    t, ty = self.expr(v.value)
                    if ty == "str":
                        parts.append(t)
                    elif ty == "nat":
                        parts.append(f"natRepr ({t})")
                    else:
                        raise P.Untranslatable(f"f-string field of type {ty}")
                else:
                    raise P.Untranslatable("f-string part " + ast.dump(v)[:120])
            return "(" + " ++ ".join(parts or ["([] : Str)"]) + ")", "str"
        if isinstance(n, ast.Compare) and len(n.ops) == 1:
            op, l, r = n.ops[0], n.left, n.comparators[0]
            if isinstance(op, (ast.In, ast.NotIn)):
                if not (isinstance(l, ast.Constant) and isinstance(l.value, str) and len(l.value) == 1):
                    raise P.Untranslatable("`in` with a non single-character left operand")
                rt, rty = self.expr(r)
                if rty != "str":
                    raise P.Untranslatable(f"`in` on {rty}")
                return f"({lchar(l.value)} {'∈' if isinstance(op, ast.In) else '∉'} {rt})", "prop"
            if type(op) in P.CMP:
                (a, ta), (b, tb) = self.expr(l), self.expr(r)
                if ta == tb == "nat":
                    sym = {"==": "=", "!=": "≠"}.get(P.CMP[type(op)], P.CMP[type(op)])
                    return f"({a} {sym} {b})", "prop"
                raise P.Untranslatable(f"comparison of {ta} and {tb}")  # e.g. max()/</> on strings: not in the sub-language
        if isinstance(n, ast.BoolOp):
            ts = [self.cond(v) for v in n.values]
            return "(" + (" ∧ " if isinstance(n.op, ast.And) else " ∨ ").join(ts) + ")", "prop"
        if isinstance(n, ast.UnaryOp) and isinstance(n.op, ast.Not):
            return f"(¬ {self.cond(n.operand)})", "prop"
        if isinstance(n, ast.BinOp) and isinstance(n.op, (ast.Add, ast.Mult, ast.Sub)):
            (a, ta), (b, tb) = self.expr(n.left), self.expr(n.right)
            if ta == tb == "nat" and isinstance(n.op, (ast.Add, ast.Mult)):
                return f"({a} {'+' if isinstance(n.op, ast.Add) else '*'} {b})", "nat"
            if ta == tb == "str" and isinstance(n.op, ast.Add):
                return f"({a} ++ {b})", "str"
            raise P.Untranslatable(f"binary operator on {ta}, {tb}")
        if isinstance(n, ast.IfExp):
            c, guard = self._guarded_cond(n.test)
            saved = set(self.truthy)
            self.truthy |= guard
            a, ta = self.expr(n.body)
            self.truthy = saved
            b, tb = self.expr(n.orelse)
            if ta != tb or ta == "prop":
                raise P.Untranslatable(f"conditional expression of types {ta}/{tb}")
            return f"(if {c} then {a} else {b})", ta
        if isinstance(n, ast.Call) and isinstance(n.func, ast.Name) and not n.keywords:
            f, args = n.func.id, n.args
            if f == "int" and len(args) == 1:
                a = args[0]
                if isinstance(a, ast.BoolOp) and isinstance(a.op, ast.Or) and len(a.values) == 2 and isinstance(a.values[0], ast.Name) and self.env.get(a.values[0].id) == "optstr" and isinstance(a.values[1], ast.Constant) and isinstance(a.values[1].value, int) and not isinstance(a.values[1].value, bool) and a.values[1].value >= 0:
                    return f"(pyIntOr {lname(a.values[0].id)} {a.values[1].value})", "nat"
                t, ty = self.expr(a)
                if ty == "str":
                    return f"(pyInt {t})", "nat"
                if ty == "nat":
                    return t, "nat"
                raise P.Untranslatable(f"int() of {ty}")
            if f == "len" and len(args) == 1:
                t, ty = self.expr(args[0])
                if ty == "str":
                    return f"(List.length {t})", "nat"
            if f == "str" and len(args) == 1:
                t, ty = self.expr(args[0])
                if ty == "nat":
                    return f"(natRepr {t})", "str"
                if ty == "str":
                    return t, "str"
            if f in ("max", "min") and len(args) == 2:
                (a, ta), (b, tb) = self.expr(args[0]), self.expr(args[1])
                if ta == tb == "nat":
                    return f"({f} {a} {b})", "nat"
                raise P.Untranslatable(f"{f}() of {ta}, {tb} (only integers are in the sub-language)")
        raise P.Untranslatable(ast.dump(n)[:200])

    def _guarded_cond(self, n) -> tuple[str, set[str]]:
        if isinstance(n, ast.Name) and self.env.get(n.id) == "optstr":
            return f"(truthy {lname(n.id)} = true)", {n.id}
        return self.cond(n), set()

    def cond(self, n) -> str:
        if isinstance(n, ast.Name) and self.env.get(n.id) == "optstr":
            return f"(truthy {lname(n.id)} = true)"
        t, ty = self.expr(n)
        if ty == "prop":
            return t
        if ty == "str":
            return f"({t} ≠ [])"
        if ty == "nat":
            return f"({t} ≠ 0)"
        raise P.Untranslatable(f"condition of type {ty}")

    # -- statements
    def block(self, stmts, ind: int, nested: bool) -> list[str]:
        out = []
        pad = "  " * ind
        returns = bool(stmts) and isinstance(stmts[-1], ast.Return)
        for st in stmts:
            if isinstance(st, ast.Expr) and isinstance(st.value, ast.Constant) and isinstance(st.value.value, str):
                continue  # docstring
            if isinstance(st, ast.Assign) and len(st.targets) == 1 and isinstance(st.targets[0], ast.Name):
                name = st.targets[0].id
                t, ty = self.expr(st.value)
                if ty not in self.LT:
                    raise P.Untranslatable(f"assignment of {ty}")
                if name in self.env:
                    if self.env[name] != ty:
                        raise P.Untranslatable(f"{name} changes type {self.env[name]} -> {ty}")
                    out.append(f"{pad}{lname(name)} := {t}")
                else:
                    if nested and not returns:
                        raise P.Untranslatable(f"{name} first assigned in a branch that does not return")
                    self.env[name] = ty
                    out.append(f"{pad}let {'mut ' if name in self.mutable else ''}{lname(name)} : {self.LT[ty]} := {t}")
            elif isinstance(st, ast.AugAssign) and isinstance(st.op, ast.Add) and isinstance(st.target, ast.Name) and st.target.id in self.env:
                name = st.target.id
                t, ty = self.expr(st.value)
                if self.env[name] != ty or ty not in ("str", "nat"):
                    raise P.Untranslatable(f"{name} += {ty}")
                out.append(f"{pad}{lname(name)} := {lname(name)} {'++' if ty == 'str' else '+'} {t}")
            elif isinstance(st, ast.If):
                c, guard = self._guarded_cond(st.test)
                out.append(f"{pad}if {c} then")
                saved_env, saved_truthy = dict(self.env), set(self.truthy)
                self.truthy |= guard
                out += self.block(st.body, ind + 1, True)
                self.env, self.truthy = dict(saved_env), set(saved_truthy)
                if st.orelse:
                    out.append(f"{pad}else")
                    out += self.block(st.orelse, ind + 1, True)
                    self.env, self.truthy = dict(saved_env), set(saved_truthy)
            elif isinstance(st, ast.Return) and st.value is not None:
                t, ty = self.expr(st.value)
                if ty != "str":
                    raise P.Untranslatable(f"returns {ty}")
                out.append(f"{pad}return {t}")
            else:
                raise P.Untranslatable("statement " + ast.dump(st)[:160])
        if not out:
            out.append(f"{pad}pure ()")
        return out


RE_SHAPE = re.compile(r"^%\(\[([^\]\\]+)\]\*\)\(\\d\+\)\?\(\?:\\\.\(\\d\+\)\)\?\(\[([A-Za-z]+)\]\)$")


def _find_int_replacer(tree):
    cls = P.find_class(tree, "MultipartRelatedConsolidator")
    init = next((n for n in cls.body if isinstance(n, ast.FunctionDef) and n.name == "__init__"), None)
    if init is None:
        raise P.Untranslatable("MultipartRelatedConsolidator.__init__ not found")
    subs = [n for n in ast.walk(init) if isinstance(n, ast.Call) and P.dotted(n.func) == "re.sub"]
    if len(subs) != 1:
        raise P.Untranslatable(f"expected exactly one re.sub call in __init__, found {len(subs)}")
    call = subs[0]
    if len(call.args) != 3 or call.keywords or not (isinstance(call.args[0], ast.Constant) and isinstance(call.args[0].value, str)) or not isinstance(call.args[1], ast.Name):
        raise P.Untranslatable("re.sub call shape not recognised")
    fn = next((n for n in init.body if isinstance(n, ast.FunctionDef) and n.name == call.args[1].id), None)
    if fn is None:
        raise P.Untranslatable(f"replacement function {call.args[1].id} not found in __init__")
    return call.args[0].value, fn, call.lineno


def extract(ctx):
    src = (C.SRC / "consolidators.py").read_text()
    tree = ast.parse(src)
    pattern, fn, sub_line = _find_int_replacer(tree)
    m = RE_SHAPE.match(pattern)
    if not m:
        raise P.Untranslatable(f"regex {pattern!r} is not of the shape %([flags]*)(\\d+)?(?:\\.(\\d+))?([types])")
    flag_class, type_class = m.group(1), m.group(2)
    if "-" in flag_class[1:-1]:
        raise P.Untranslatable("character range in the flag class")
    if len(set(flag_class)) != len(flag_class):
        raise P.Untranslatable("duplicate character in the flag class")
    if len(fn.args.args) != 1 or fn.args.vararg or fn.args.kwarg or fn.args.kwonlyargs:
        raise P.Untranslatable("int_replacer signature")
    marg = fn.args.args[0].arg
    body = P.body_wo_doc(fn)
    # header: a, b, c, d = match.groups()
    h = body[0] if body else None
    ok = isinstance(h, ast.Assign) and len(h.targets) == 1 and isinstance(h.targets[0], ast.Tuple) and all(isinstance(e, ast.Name) for e in h.targets[0].elts) and isinstance(h.value, ast.Call) and P.dotted(h.value.func) == f"{marg}.groups" and not h.value.args and not h.value.keywords
    if not ok or len(h.targets[0].elts) != 4:
        raise P.Untranslatable("first statement is not `flags, width, precision, type_char = match.groups()`")
    names = [e.id for e in h.targets[0].elts]
    if len(set(names)) != 4:
        raise P.Untranslatable("group names not distinct")
    types = ["str", "optstr", "optstr", "str"]  # group 1 and 4 always participate; 2 and 3 are optional
    tr = StmtTr(dict(zip(names, types)), fn)
    lines = tr.block(body[1:], 1, False)
    sig = " ".join(f"({lname(n)} : {StmtTr.LT[t]})" for n, t in zip(names, types))
    out = [
        "-- GENERATED by harness/props/C37.py from src/bluesky/consolidators.py -- do not edit.",
        "import BlueskyVerif.Pure.PyStr",
        "namespace BlueskyVerif.Printf",
        "open BlueskyVerif.PyStr",
        "",
        f"/-- characters of the flag class of the regex handed to re.sub (consolidators.py:{sub_line}): {pattern} -/",
        f"def flagClass : List Char := {lstr(flag_class)}",
        "/-- conversion characters accepted by the regex -/",
        f"def typeClass : List Char := {lstr(type_class)}",
        "",
        f"/-- `{fn.name}` (consolidators.py:{fn.lineno}), translated statement by statement; the arguments are the regex groups -/",
        f"def intReplacer {sig} : Str := Id.run do",
        *lines,
        "",
        "end BlueskyVerif.Printf",
        "",
    ]
    C.write_if_changed(GEN, "\n".join(out))
    return {"regex": pattern, "regex_at": f"consolidators.py:{sub_line}", "flag_class": flag_class, "type_class": type_class, "int_replacer_at": f"consolidators.py:{fn.lineno}", "int_replacer_lean": lines, "group_names": names}
