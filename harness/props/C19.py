"""C19 -- callbacks see every document once, in order, and errors follow policy.

Tie: same model, extractor and correspondence machinery as C18 (harness/props/dispcommon.py,
lean/BlueskyVerif/Disp/*): (T) iteration order and exception policy of `CallbackRegistry.process`
(plus the C18 flags) are re-read from the source into Disp/Generated.lean; (C) histories with
callbacks that raise at chosen invocations, under both policies, are run on the real Dispatcher /
real RunEngine and on the Lean model (replies per document: callables invoked in order, collected
or propagated exception; private dictionaries after every operation).
The engine half of the property (a propagated callback exception ends the plan with that exception
and the open run is closed as failed) is checked here on the real RunEngine by the oracle; in Lean it
is the statement that the exception leaves `process`/`emit` inside the emitting command
(`C19_raise_policy`) -- what the engine does with an exception raised by a command is C12/C02.
"""
from __future__ import annotations

import itertools
import json
import logging

import common as C
import fault_probes as FP
import re_probes as RP
from props import dispcommon as D

MANIFEST = {
    "text": "FULL for delivery; the engine half is tied by C02/C12 and tested here. Theorems (Props/C19.lean) over the same "
    "transcription of CallbackRegistry/Dispatcher/RunEngine bookkeeping as C18, for EVERY history and EVERY callback behaviour "
    "(raising decided by an arbitrary function of everything invoked before): a document of kind k is delivered to exactly "
    "the callables live for k, each exactly once, in the order in which they became live (= subscription order when no "
    "callable is subscribed twice at a time; a new subscription goes last, removals keep relative order); the whole "
    "invocation log is the per-document deliveries in emission order; with exceptions ignored every callable is still "
    "invoked and process returns with exactly the raisers' exceptions collected; otherwise delivery stops at the first "
    "raiser, later callables are not invoked and its exception leaves process (hence emit and the emitting command). "
    "That the engine then throws it into the plan and closes the run with exit_status 'fail' is exercised against the real "
    "RunEngine (count plans over ophyd.sim.det, callbacks raising at the k-th document) by the oracle of this check and "
    "is the subject of C02/C12 in Lean. Interpretive choice: when the raising document is the run's own stop document the "
    "run is already closed; the oracle then demands only that the plan ends with that exception and no second stop appears.",
    "note": "Trusted: Lean kernel; the extractor (AST shapes of process/connect/unsubscribe/... -> Generated.lean flags); "
    "callables are abstract identities that stay alive (weak references outside the model); no re-entrant "
    "subscribe/unsubscribe from inside a callback; BaseException subclasses that are not Exception are outside the model. "
    "The hand-written model is tied by the correspondence run.",
    "technique": "Lean 4 refinement proof + source-extracted flags + correspondence run against the real Dispatcher/RunEngine; "
    "engine half by oracle on the real RunEngine",
}
LEAN_MODULES = ["BlueskyVerif.Props.C19"]
DRIVER_MODULES = ["BlueskyVerif.Disp.DriverCore"]
DRIVER = "Drivers/C19.lean"
ASSUMPTIONS = [
    "callables are abstract identities (equality of their _BoundMethodProxy) and are not garbage collected while subscribed",
    "callbacks do not call subscribe/unsubscribe re-entrantly while a document is being processed",
    "callbacks raise subclasses of Exception (process does not catch other BaseExceptions)",
    "the engine half (exception thrown into the plan, run closed as failed) is tested on the real RunEngine, proved under C02/C12",
]
TRUSTED = ["harness/props/dispcommon.py: AST shape recognition of the anchored methods -> Disp/Generated.lean"]


def extract(ctx):
    return D.extract(ctx)


def expected_docs(plan):
    out = []
    for p in plan:
        if p["p"] == "run":
            out.append("start")
            if p["n"] > 0:
                out.append("descriptor")
                out += ["event"] * p["n"]
            out.append("stop")
    return out


def oracle(case, obs):
    bad = []
    ignore = bool(case.get("ignore", False))
    raise_at = {(int(f), int(n)) for f, n in case.get("raise_at", [])}
    counts = {}
    per_call = {}  # call number -> list of (op, rep)

    def on_emit(spec, op, rep, where):
        k = op["k"]
        per_call.setdefault(where["call"], []).append((op, rep))
        order = list(spec.order[k])
        # what the property prescribes for this document
        want_called, want_collected, want_raised = [], [], None
        for f in order:
            want_called.append(f)
            n = counts.get(f, 0)
            if (f, n) in raise_at:
                if ignore:
                    want_collected.append(f)
                else:
                    want_raised = f
                    break
        got = rep["called"]
        for f in got:
            counts[f] = counts.get(f, 0) + 1
        ctx = f"document #{op['doc']} ({k}, call {where['call']}): invoked {got}, prescribed {want_called} (live order {order})"
        if got != want_called:
            if len(set(got)) != len(got):
                bad.append(("delivery:callable-invoked-more-than-once", ctx))
            elif sorted(got) == sorted(want_called):
                bad.append(("delivery:wrong-order", ctx))
            elif want_raised is not None and got[: len(want_called)] == want_called:
                bad.append(("policy:delivery-continued-after-propagating-exception", ctx))
            elif ignore and want_collected and got == want_called[: len(got)]:
                bad.append(("policy:ignored-exception-stopped-delivery", ctx))
            elif set(got) - set(order):
                bad.append(("delivery:callable-without-live-subscription-invoked", ctx))
            else:
                bad.append(("delivery:live-callable-not-invoked", ctx))
            return
        if want_raised is not None:
            if rep.get("raised") != want_raised:
                bad.append(("policy:exception-did-not-leave-process", f"{ctx}; f{want_raised} raised, reply {rep}"))
        else:
            if "raised" in rep:
                bad.append(("policy:ignored-exception-left-process" if ignore else "policy:spurious-exception", f"{ctx}; reply {rep}"))
            elif rep.get("collected") != want_collected:
                bad.append(("policy:collected-exceptions-differ", f"{ctx}; collected {rep.get('collected')} expected {want_collected}"))

    D.walk_spec(case, obs, on_emit, bad)
    for m in obs["mismatch"]:
        bad.append(("delivery:callback-got-different-document", f"callback received {m}"))
    # the engine half
    if case.get("level") == "re":
        call_ops = [op for op in case["ops"] if op["op"] == "call"]
        for ci, (cop, out) in enumerate(zip(call_ops, obs["calls"])):
            emits = per_call.get(ci, [])
            full = expected_docs(cop["plan"])
            kinds = [d[0] for d in out["docs"]]
            first = next((j for j, (_, rep) in enumerate(emits) if "raised" in rep), None)
            where = f"call {ci} (ignore={ignore}, raise_at={sorted(raise_at)}): outcome {out['result']}, documents {out['docs']}"
            if out.get("state") != "idle":
                bad.append(("engine:not-idle-after-call", where))
            if first is None:
                if out["result"] != "ok":
                    bad.append(("engine:call-failed-although-no-exception-left-process", where + f" {out.get('msg', '')}"))
                elif kinds != full or any(d[0] == "stop" and d[1] != "success" for d in out["docs"]):
                    bad.append(("engine:plan-did-not-run-to-completion" + (":with-ignored-callback-exception" if ignore and raise_at else ""), where + f"; expected {full}"))
                continue
            op, rep = emits[first]
            # the plan must end with the callback's exception; if closing the failed run makes another callback
            # raise, Python chains the two (the later one is raised with the first as its __context__)
            later = {r["raised"] for _, r in emits[first + 1 :] if "raised" in r}
            if out["result"] != "CbError" or rep["raised"] not in out.get("chain", []) or (out.get("ident") != rep["raised"] and out.get("ident") not in later):
                bad.append(("engine:plan-not-ended-with-the-callback-exception", where + f"; f{rep['raised']} raised on {op['k']}"))
            if kinds[: first + 1] != full[: first + 1]:
                bad.append(("engine:unexpected-documents-before-exception", where + f"; expected prefix of {full}"))
            rest = out["docs"][first + 1 :]
            if op["k"] == "stop":
                if rest:
                    bad.append(("engine:documents-after-failed-stop", where))
            elif [list(x) for x in rest] != [["stop", "fail"]]:
                bad.append((f"engine:run-not-closed-as-failed:exception-on-{op['k']}", where + f"; after the raising {op['k']} document came {rest}"))
    return bad


def exhaustive_cases():
    """3 callables subscribed to 'start' in every order (one of them via 'all'), every subset raising
    on its first invocation, both policies, optionally one token unsubscribed, two documents."""
    for perm in itertools.permutations([0, 1, 2]):
        for raisers in itertools.chain.from_iterable(itertools.combinations([0, 1, 2], r) for r in range(4)):
            for ignore in (False, True):
                for unsub in (None, 0, 1, 2):
                    ops = [{"op": "sub", "f": f, "name": "all" if f == 1 else "start"} for f in perm]
                    if unsub is not None:
                        ops.append({"op": "unsub", "tok": unsub})
                    ops += [{"op": "emit", "k": "start", "doc": 0}, {"op": "emit", "k": "start", "doc": 1}, {"op": "emit", "k": "stop", "doc": 2}]
                    yield {"level": "disp", "ignore": ignore, "raise_at": [[f, 0] for f in raisers], "ops": ops}


def _cases(ctx):
    yield from D.corpus_cases("C19")
    yield from exhaustive_cases()
    for _ in range(ctx.budget(700, 25000)):
        yield D.gen_disp(ctx.rng, raising=True)
    for _ in range(ctx.budget(110, 3000)):
        yield D.gen_re(ctx.rng, raising=True)


def _nontrivial(case, obs):
    """some callback actually raised, or a document went to at least two callables"""
    for t, r in zip(obs["trace"], obs["replies"]):
        if t["op"] == "emit" and ("raised" in r or r.get("collected") or len(r["called"]) >= 2):
            return True
    return False


def reentrant_probe(case):
    """Implementation-only probe (re-entrant (un)subscription is outside the Lean model): callbacks that
    subscribe / unsubscribe while a document is being dispatched.  Every callback that was live when the
    document was emitted must still receive it exactly once, in subscription order, and with exceptions ignored
    nothing may escape process()."""
    import warnings

    from bluesky.run_engine import Dispatcher
    from event_model import DocumentNames

    disp = Dispatcher()
    disp.ignore_exceptions = bool(case["ignore"])
    log, tokens, bad = [], {}, []

    def make(i, action):
        def cb(name, doc):
            log.append((i, doc["n"]))
            if action and action[0] == "unsub_self" and doc["n"] == action[1]:
                disp.unsubscribe(tokens[i])
            if action and action[0] == "unsub_other" and doc["n"] == action[1] and action[2] in tokens:
                disp.unsubscribe(tokens[action[2]])
            if action and action[0] == "sub_new" and doc["n"] == action[1]:
                j = 100 + i
                tokens[j] = disp.subscribe(make(j, None), "event")

        return cb

    for i, action in enumerate(case["cbs"]):
        tokens[i] = disp.subscribe(make(i, action), "event")
    live = list(range(len(case["cbs"])))
    for n in range(case["docs"]):
        before = len(log)
        try:
            with warnings.catch_warnings():
                warnings.simplefilter("ignore")
                disp.process(DocumentNames.event, {"n": n})
        except Exception as e:  # noqa
            bad.append(("reentrant:exception-escaped-process:" + type(e).__name__, f"document {n}: {type(e).__name__}: {e} escaped Dispatcher.process (ignore_exceptions={case['ignore']})"))
        got = [i for i, m in log[before:] if m == n and i < 100]
        if got != live:
            bad.append(("reentrant:delivery-changed-by-subscription-change-during-dispatch", f"document {n}: callbacks live at emission {live} but delivered to {got}"))
        for i, action in enumerate(case["cbs"]):
            if action and action[1] == n:
                if action[0] == "unsub_self" and i in live:
                    live.remove(i)
                if action[0] == "unsub_other" and action[2] in live:
                    live.remove(action[2])
        if bad:
            break
    return bad


def reentrant_cases(rng, n):
    out = []
    for _ in range(n):
        k = rng.choice([2, 3, 4])
        cbs = [None] * k
        i = rng.randrange(k)
        kind = rng.choice(["unsub_self", "unsub_self", "unsub_other", "sub_new"])
        cbs[i] = [kind, rng.randrange(0, 3)] + ([rng.randrange(k)] if kind == "unsub_other" else [])
        out.append({"probe": "reentrant", "cbs": cbs, "docs": 4, "ignore": rng.random() < 0.5})
    return out


PROBE_JUDGES = [FP.callback_exception_policy]


def run(ctx, model=True):
    logging.getLogger("bluesky").setLevel(logging.CRITICAL)
    res = C.Result(
        rule="cases = corpus + every subscription order of 3 callables x every subset raising x both policies x optional unsubscribe "
        "+ random Dispatcher histories with callbacks raising at their n-th invocation (n in 0..3), both policies "
        "+ random RunEngine sessions (count plans over ophyd.sim.det, permanent / per-call / in-plan subscriptions, callbacks "
        "raising at the n-th document they receive, n in 0..6); non-trivial = a callback raised or a document reached >= 2 callables"
    )
    cases, obss = [], []
    for case in _cases(ctx):
        obs = D.run_impl(case)
        cases.append(case)
        obss.append(obs)
        res.seen(case, _nontrivial(case, obs))
        res.count("level:" + case.get("level", "disp"))
        res.count("policy:" + ("ignore" if case.get("ignore") else "raise"))
        for t, r in zip(obs["trace"], obs["replies"]):
            if t["op"] == "emit":
                res.count("emit:" + ("raised" if "raised" in r else "collected" if r.get("collected") else "quiet"))
        for o in obs["calls"]:
            res.count("call:" + o["result"])
        for sig, what in oracle(case, obs):
            res.violations.append(C.Violation(sig, what, case))
    if model:
        replies = C.lean_batch(DRIVER, [D.model_request(c, o) for c, o in zip(cases, obss)])
        for case, obs, rep in zip(cases, obss, replies):
            diff = D.compare(case, obs, rep)
            if diff:
                res.disagreements.append({"case": case, "diff": diff})
        for i in (0, len(cases) // 2, len(cases) - 1):
            m = json.loads(replies[i])
            res.samples.append({"case": cases[i], "impl_replies": obss[i]["replies"], "model_replies": m["replies"], "calls": obss[i]["calls"]})
    else:
        res.samples.append({"case": cases[-1], "impl_replies": obss[-1]["replies"]})
    for pc in reentrant_cases(ctx.rng, ctx.budget(40, 600)):
        res.seen(pc, True)
        res.count("impl-only-probe:reentrant-subscription-change")
        for sig, what in reentrant_probe(pc):
            res.violations.append(C.Violation(sig, "implementation-only probe: " + what, pc))
    res.notes.append("re-entrant subscribe/unsubscribe during dispatch is probed on the implementation only (outside the Lean model)")
    FP.run_probes(ctx, res, PROBE_JUDGES, ["close"], 40, 800)
    RP.add_to(res, ["dying-subscriber"])
    return res


def run_impl_only(ctx):
    return run(ctx, model=False)


def replay(ctx, data):
    logging.getLogger("bluesky").setLevel(logging.CRITICAL)
    res = C.Result()
    case = data.get("case")
    if not case:
        return res
    r = RP.replay(data)
    if r is not None:
        return r
    if FP.is_probe(data):
        return FP.replay_probe(ctx, data, PROBE_JUDGES)
    if case.get("probe") == "reentrant":
        for sig, what in reentrant_probe(case):
            res.violations.append(C.Violation(sig, what, case))
        return res
    obs = D.run_impl(case)
    for sig, what in oracle(case, obs):
        res.violations.append(C.Violation(sig, what, case))
    return res
