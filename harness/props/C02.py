"""C02 -- exit status, reason and raised exception reflect how the run ended."""
from __future__ import annotations

import copy

import common as C
import fault_probes as FP
import re_probes as RP
import engine_common as E
import engine_extract
from engine_common import M, seq
from engine_impl import run_scenario

MANIFEST = {
    "text": "FULL for the modelled engine, under the ruling that a request ACCEPTED in the exit sleep (after the plan's last message) may or may not be reflected in the RunStop (the defect 'a REFUSED abort() still overwrote status and reason' was repaired in /repo, commit 7236275; Counterexamples/C02.lean now proves refused_request_stores_nothing). Lean (Props/C02.lean, over the shared "
    "program-counter model of RunEngine._run): C02_ladder -- leaveLoop stores exactly the status of the GENERATED except "
    "ladder of _run for every exception class, and with the current source that is the documented mapping (StopIteration/"
    "RequestStop -> success, FailedPause/RequestAbort/CancelledError/PlanHalt -> abort, everything else -> fail with the "
    "exception as reason); C02_engine_closed_status -- every RunStop written by the outer finally carries that status and "
    "the reason 'exception text, else the abort reason' and every open run gets exactly one, for any number of open runs; "
    "C02_abort_request / C02_stop_request / C02_halt_request / C02_cancellation_becomes_control_exception -- what abort/stop/halt store themselves and what they leave for _run (exception slot when "
    "paused, cancellation otherwise, turned into the control exception by the CancelledError handler); C02_call_outcome -- "
    "RE()/resume() raise RunEngineInterrupted iff the task did not raise and _interrupted, and (C02_task_reraises, C02_fail_iff_reraised) the task re-raises the "
    "exception that left the loop exactly for the 'fail' classes; C02_status_when_cleanup_runs (GLOBAL, every plan, script, fuel): "
    "whenever the task has ended the stored status is the ladder value of the exception that left the loop, or 'abort' "
    "(stored by an abort request made after the loop was left).  The model is tied to the real RunEngine by differential "
    "runs on targeted scenarios (open runs x every way of ending x requests at every arrival incl. the exit sleep).",
    "note": "Trusted: Lean kernel; engine_extract.py; hand-written _run machine tied by correspondence runs under the "
    "deterministic loop (harness/simloop.py). FailedStatus chaining to the device exception and str(exception) as reason "
    "are checked on the implementation only (the model keeps exception classes, not texts). Threads/_state_lock, SIGINT and "
    "the panic path are not modelled.",
    "technique": "Lean 4 proof over a program-counter model of RunEngine._run with source-extracted exit ladder and request constants + differential runs against the real RunEngine",
}
LEAN_MODULES = ["BlueskyVerif.Props.C02"]
DRIVER_MODULES = E.DRIVER_MODULES
DRIVER = E.DRIVER
ASSUMPTIONS = [
    "requests from other threads act atomically while _run is suspended at an await",
    "synchronous fake devices; statuses complete only when the script says so",
    "a plan that handles a control exception (RequestAbort/RequestStop/FailedPause) and then ends on its own counts as ended "
    "the way it ended (normal completion / its own error), as the except ladder of _run does",
    "a request that lands after the plan's last message, in the exit sleep of _run (arrival S4), and is ACCEPTED may or may "
    "not be reflected in the engine-written RunStop: both the status of how the plan ended and the request's status are "
    "accepted there (abort -> 'abort', halt / unresumable suspension -> 'success' in the current code); a REFUSED request "
    "must leave no trace",
]

CONTROL = ("RequestAbort", "RequestStop", "FailedPause", "PlanHalt")
TERMINAL = ("aborting", "halting", "stopping")
EXPECT = {"aborting": "abort", "halting": "abort", "stopping": "success"}


def extract(ctx):
    return engine_extract.extract()


# ----------------------------------------------------------------------------- oracle
def segments(o):
    """split the logs of a scenario into the blocking calls (call, resume, abort, ...) by the global clock"""
    tk = o["ticks"]
    ends = tk["returns"]
    segs = []
    lo = 0
    for i, hi in enumerate(ends):
        def cut(key, log):
            return [x for x, t in zip(log, tk[key]) if lo < t <= hi]

        segs.append({
            "i": i,
            "ret": o["returns"][i],
            "text": o["return_texts"][i],
            "cause": o["return_causes"][i],
            "trans": cut("trans", o["trans"]),
            "trans_t": [t for t in tk["trans"] if lo < t <= hi],
            "docs": cut("docs", o["docs"]),
            "yields": cut("yields", o["yields"]),
            "arrivals": cut("arrivals", o["arrivals"]),
            "arr_t": [t for t in tk["arrivals"] if lo < t <= hi],
            "arr_idx": [k for k, t in enumerate(tk["arrivals"]) if lo < t <= hi],
        })
        lo = hi
    return segs


def request_kind(sc, idx):
    acts = sc.get("script", {}).get(str(idx), [])
    return "+".join(a["a"] + ("-deferred" if a.get("defer") else "") for a in acts if a["a"] in ("pause", "suspend", "abort", "stop", "halt")) or "none"


def oracle(sc, o):
    bad = []
    segs = segments(o)
    closed = set(o["engine_closed"])
    for g in segs:
        op, result, state, interrupted = g["ret"][0], g["ret"][1], g["ret"][2], g["ret"][3]
        if result == "hang":
            continue  # C07
        # ---- clause 3: what the call raises
        if result == "raise:RunEngineInterrupted" and not interrupted:
            bad.append((f"interrupted-raised-without-interruption:{op}", f"{op} raised RunEngineInterrupted but _interrupted is False"))
        if result == "return" and interrupted and op in ("call", "resume"):
            bad.append((f"interruption-not-raised:{op}", f"{op} returned normally although the engine was interrupted (state {state})"))
        if result == "raise:FailedStatus" and g["cause"] != "DeviceError":
            bad.append((f"failed-status-not-chained:{op}", f"FailedStatus raised by {op} has __cause__ {g['cause']!r}, not the device's exception"))
        foreign = result.startswith("raise:") and result != "raise:RunEngineInterrupted"
        stops = [d for d in g["docs"] if d["k"] == "stop" and d["run"] in closed]
        if not stops:
            continue
        # ---- how did the plan end in this call
        last_t = None      # last terminating state entered in this call, with its time
        for (a, b), t in zip(g["trans"], g["trans_t"]):
            if b in TERMINAL:
                last_t = (b, t)
        s4 = [(k, t) for kind, k, t in zip(g["arrivals"], g["arr_idx"], g["arr_t"]) if kind == "S4"]
        s4_t = s4[-1][1] if s4 else None
        after_end = last_t is not None and s4_t is not None and last_t[1] > s4_t   # the request landed in the exit sleep
        # requests made in the exit sleep(0) of _run (after the plan's last message)
        s4_acts = [a for a in sc.get("script", {}).get(str(s4[-1][0]), [])] if s4 else []
        st_at_s4 = "running"
        for (a, b), t in zip(g["trans"], g["trans_t"]):
            if s4_t is not None and t < s4_t:
                st_at_s4 = b
        also = set()
        if foreign:
            want, why = "fail", f"unhandled {result[6:]}"
        elif last_t is None:
            want, why = "success", "normal completion"
        elif after_end:
            # the plan had ended (normally or by a control exception) when the request was ACCEPTED in the exit
            # sleep(0): the RunStop may reflect how the plan ended or the request (ruling: both readings hold)
            ended = {"running": "success", "pausing": "success", "suspending": "success", "stopping": "success"}.get(st_at_s4, "abort")
            want, why = EXPECT[last_t[0]], f"{last_t[0]} entered after the plan's end"
            also = {ended}
        elif o["plan_finished"]:
            # the request was accepted, the plan handled the control exception and completed on its own: the ladder
            # says 'success'; the request's own status is accepted as well (e.g. re-stored by a later refused abort)
            want, why = "success", f"the plan handled the {last_t[0]} request and completed on its own"
            also = {EXPECT[last_t[0]]}
        else:
            want, why = EXPECT[last_t[0]], f"terminated through {last_t[0]}"
        if not foreign and any(y[1] == "throw" and y[2] == "FailedPause" for y in g["yields"]):
            also = also | {"abort"}      # a pause / suspension hit a non-resumable section: FailedPause was delivered
        for d in stops:
            if d["exit"] != want and d["exit"] not in also:
                if d["exit"] == "abort" and "abort" in o["refused"] and any(a["a"] == "abort" for a in s4_acts) and last_t and last_t[0] != "aborting":
                    # an abort() made in the exit sleep was refused, yet its status is on the RunStop
                    sig = f"exit-status-after-plan-end:refused-abort-request-at-S4-while-{last_t[0]}:abort-instead-of-{want}"
                elif after_end:
                    # which request produced the last terminating state
                    kinds = [a["a"] for a in s4_acts]
                    req = {"halting": "halt", "stopping": "stop"}.get(last_t[0]) or ("abort" if "abort" in kinds else "suspend-unresumable" if "suspend" in kinds else "?")
                    sig = f"exit-status-after-plan-end:{req}-request-at-S4:{d['exit']}-instead-of-{want}"
                elif foreign:
                    sig = f"exit-status:unhandled-{result[6:]}:{d['exit']}-instead-of-fail"
                else:
                    sig = f"exit-status:{(last_t[0] if last_t else 'completion')}:{d['exit']}-instead-of-{want}"
                bad.append((sig, f"{op}: engine-closed {d['run']} has exit_status {d['exit']!r}, expected {want!r} ({why}); reason {d['reason_text']!r}; requests in the exit sleep: {request_kind(sc, s4[-1][0]) if s4 else 'none'}"))
            if want == "fail" and d["exit"] == "fail" and d["reason_text"] != g["text"]:
                bad.append((f"fail-reason-is-not-the-exception-text:{result[6:]}", f"{op} raised {result[6:]}({g['text']!r}) but the RunStop reason is {d['reason_text']!r}"))
            if d["exit"] != "fail" and d["reason_text"] not in ("", "requested"):
                bad.append((f"stale-reason-on-{d['exit']}", f"{op}: RunStop of {d['run']} ({d['exit']}) carries reason {d['reason_text']!r}"))
    return bad


# ----------------------------------------------------------------------------- targeted generator
def gen_body(rng):
    """plan that opens runs, leaves (most of) them open and ends in a chosen way"""
    b = []
    if rng.random() < 0.3:
        b.append(M("stage", rng.choice(["d1", "m1"])))
    keys = [None] if rng.random() < 0.8 else ["a", "b"]
    for k in keys:
        b.append(M("open_run", run=k))
    for _ in range(rng.choice([0, 1, 1, 2])):
        k = rng.choice(keys)
        if rng.random() < 0.7:
            b.append(M("checkpoint"))
        r = rng.random()
        if r < 0.3:
            b += [M("set", "m2", rng.choice([1, 2]), group="g"), M("wait", None, group="g")]
        elif r < 0.4:
            b.append(M("sleep", None, 1))
        elif r < 0.5:
            b.append(M("null"))
        b += [M("create", None, name="primary", run=k), M("read", "d2", run=k), M("save", run=k)]
    if rng.random() < 0.25:
        b.append(M("clear_checkpoint"))
        b.append(M("null"))
    elif rng.random() < 0.1:
        b.append(M("rewindable", None, False))
    if rng.random() < 0.12:
        b.append(M("pause", None, defer=rng.random() < 0.5))
        if rng.random() < 0.5:
            b.append(M("checkpoint"))
    end = rng.choice(["return", "return", "raise", "dev-raise", "fail-wait", "fail-nowait", "fail-late", "bogus", "illegal"])
    devmodes = {}
    if end == "raise":
        b.append({"k": "raise", "tag": "boom"})
    elif end == "dev-raise":
        if rng.random() < 0.5:
            b.append(M("read", "d1"))
            devmodes = {"d1": {"read": ["raise"]}}
        else:
            b.append(M("set", "m1", 3))
            devmodes = {"m1": {"set": ["raise"]}}
    elif end == "fail-wait":
        b += [M("set", "m1", 3, group="f"), M("wait", None, group="f")]
        devmodes = {"m1": {"set": ["fail"]}}
    elif end == "fail-nowait":
        b += [M("set", "m1", 3, group="f"), M("null"), M("null")]
        devmodes = {"m1": {"set": ["fail"]}}
    elif end == "fail-late":
        b += [M("set", "m1", 3, group="f"), M("null"), M("wait", None, group="f")]
        devmodes = {"m1": {"set": ["pending"]}}
    elif end == "bogus":
        b.append(M("bogus"))
    elif end == "illegal":
        b.append(M("save", run=keys[0]))
    if end != "return" and rng.random() < 0.4:
        b.append(M("null"))
    if rng.random() < 0.15:
        b.append(M("close_run", run=keys[0], **({"exit_status": rng.choice(["success", "abort", "fail"])} if rng.random() < 0.5 else {})))
    return b, devmodes, end


def wrap(rng, body):
    """try/except/finally shapes: ignore, handle, transform errors; cleanup that yields"""
    r = rng.random()
    st = seq(*body)
    if r < 0.35:
        return st, "plain"
    if r < 0.5:
        return {"k": "try", "body": st, "handler": None, "fin": seq(M("null"))}, "finally-yields"
    if r < 0.6:
        return {"k": "try", "body": st, "handler": seq(M("null")), "fin": None}, "swallow"
    if r < 0.7:
        return {"k": "try", "body": st, "handler": seq(M("null"), {"k": "raise", "tag": "boom2"}), "fin": None}, "transform"
    if r < 0.78:
        return {"k": "try", "body": st, "handler": seq({"k": "raise", "tag": "boom2"}), "fin": seq(M("null"))}, "transform+finally"
    if r < 0.86:
        inner = {"k": "try", "body": st, "handler": None, "fin": seq(M("null"))}
        return {"k": "try", "body": seq(inner, M("null")), "handler": seq(M("null")), "fin": None}, "nested-swallow"
    if r < 0.93:
        return {"k": "try", "body": st, "handler": None, "fin": seq({"k": "raise", "tag": "boom3"})}, "finally-raises"
    n = max(1, len(body) // 2)
    head = {"k": "try", "body": seq(*body[:n]), "handler": seq(M("null")), "fin": None}
    return seq(head, *body[n:]), "partial-swallow"


REQS = ["pause", "pause-deferred", "suspend", "abort", "stop", "halt"]


def make_action(rng, kind, fut):
    if kind == "pause":
        return {"a": "pause", "defer": False}
    if kind == "pause-deferred":
        return {"a": "pause", "defer": True}
    if kind == "suspend":
        return {"a": "suspend", "fut": fut, "pre": E.small_plan(rng) if rng.random() < 0.3 else None, "post": E.small_plan(rng) if rng.random() < 0.3 else None, "just": rng.choice([None, "beam"])}
    return {"a": kind}


def gen(rng):
    if rng.random() < 0.12:
        return E.gen_scenario(rng, dense=True)
    body, devmodes, end = gen_body(rng)
    plan, shape = wrap(rng, body)
    devices = {
        "m1": {"kind": "motor", "modes": {}, "pausable": rng.random() < 0.2},
        "m2": {"kind": "motor", "modes": {}},
        "d1": {"kind": "det", "modes": {}, "offset": 1},
        "d2": {"kind": "det", "modes": {}, "offset": 2},
        "s1": {"kind": "sig"},
    }
    for d, m in devmodes.items():
        devices[d]["modes"].update(m)
    sc = {"record_interruptions": rng.random() < 0.3, "devices": devices, "plan": plan, "script": {},
          "decisions": [rng.choice(["resume", "resume", "abort", "stop", "halt"]) for _ in range(4)], "max_arrivals": 200}
    if end == "fail-late":
        sc["script"] = {"1": []}
    base = run_scenario(E.number(copy.deepcopy(sc)))
    n = len(base["arrivals"])
    script = {}
    if end == "fail-late":
        # the pending status fails while the plan is doing something else / waiting
        script.setdefault(str(rng.randrange(0, n + 1)), []).append({"a": "status", "id": 0, "ok": False})
    fut = 0
    k = rng.choice([0, 1, 1, 1, 2, 2, 3])
    for _ in range(k):
        r = rng.random()
        if r < 0.3:
            at = n - 1           # the exit sleep of the undisturbed run (S4) / its last arrival
        elif r < 0.5:
            at = max(0, n - 2)   # last S1: the resume that ends the plan
        else:
            at = rng.randrange(0, n + 2)
        kind = rng.choice(REQS)
        act = make_action(rng, kind, fut)
        if kind == "suspend":
            if rng.random() < 0.7:
                script.setdefault(str(at + rng.randrange(1, 5)), []).append({"a": "release", "fut": fut})
            fut += 1
        script.setdefault(str(at), []).append(act)
    sc["script"] = script
    return E.number(sc)


def enumerate_s4():
    """small exhaustive family: every ending x every request at each of the last arrivals (incl. S4)"""
    out = []
    endings = {
        "return": [],
        "raise": [{"k": "raise", "tag": "boom"}],
        "dev-raise": [M("set", "m1", 3)],
        "fail-wait": [M("set", "m1", 3, group="f"), M("wait", None, group="f")],
    }
    for ename, tail in endings.items():
        for unres in (False, True):
            for shape in ("plain", "finally", "swallow"):
                body = [M("open_run"), M("checkpoint"), M("null")] + ([M("clear_checkpoint"), M("null")] if unres else []) + tail
                st = seq(*body)
                if shape == "finally":
                    st = {"k": "try", "body": st, "handler": None, "fin": seq(M("null"))}
                elif shape == "swallow":
                    st = {"k": "try", "body": st, "handler": seq(M("null")), "fin": None}
                devices = {"m1": {"kind": "motor", "modes": {"set": ["raise"] if ename == "dev-raise" else (["fail"] if ename == "fail-wait" else [])}}}
                sc0 = {"record_interruptions": False, "devices": devices, "plan": st, "script": {}, "decisions": ["resume", "abort"], "max_arrivals": 100}
                base = run_scenario(E.number(copy.deepcopy(sc0)))
                n = len(base["arrivals"])
                for at in range(max(0, n - 3), n):
                    for kind in REQS:
                        sc = copy.deepcopy(sc0)
                        sc["script"] = {str(at): [make_action(None, kind, 0) if kind != "suspend" else {"a": "suspend", "fut": 0, "pre": None, "post": None, "just": None}], str(at + 2): [{"a": "release", "fut": 0}]}
                        out.append(E.number(sc))
                # two requests in the exit sleep: stop accepted, abort refused, ...
    return out


_ENUM = None


def _probe_reason(sc, o):
    """a plan that dies with an exception closes its runs 'fail' with str(exception) as reason, whatever the exception's
    arguments look like (fault probes: OSError, KeyError(3), no arguments)"""
    bad = []
    if sc.get("fault", {}).get("kind") != "none" or not o["returns"] or not o["returns"][0][1].startswith("raise:"):
        return bad
    text = o["return_texts"][0]
    for d in o["docs"]:
        if d["k"] == "stop" and (d["exit"] != "fail" or d["reason_text"] != text):
            bad.append(("odd-exception:stop-not-fail-with-exception-text", f"the plan raised {o['returns'][0][1][6:]}({text!r}); RunStop of {d['run']}: exit_status {d['exit']!r}, reason {d['reason_text']!r}"))
    return bad


def _probe_abort_status(sc, o):
    """a pause in a non-resumable section with a run still open when the plan ends: the engine-closed RunStop says 'abort'"""
    bad = []
    if sc.get("fault", {}).get("how") == "pause-message-resumable":
        return bad
    for d in o["docs"]:
        if d["k"] == "stop" and d["run"] in o.get("engine_closed", []) and d["exit"] != "abort":
            bad.append(("engine-closed-run-not-abort:pause-in-non-resumable-section", f"{d['run']} was closed by the engine with exit_status {d['exit']!r} after a pause in a non-resumable section ({sc['fault']})"))
    return bad


PROBE_JUDGES = [FP.every_run_closed_once, _probe_reason]


def run(ctx, model=True):
    global _ENUM
    if _ENUM is None:
        _ENUM = enumerate_s4()
    extra = _ENUM if (ctx.tier == "thorough" or ctx.deep) else ctx.rng.sample(_ENUM, 50)
    res = E.run_property(ctx, "C02", oracle, gen=gen, quick=100, thorough=1500, model=model, extra_scenarios=extra)
    RP.add_to(res, ["run-wrapper-exception"])
    FP.run_probes(ctx, res, PROBE_JUDGES, ["close"], 20, 400)
    FP.run_probes(ctx, res, [FP.ends_usable, FP.every_run_closed_once, _probe_abort_status], ["async-stop"], 12, 120)
    return res


def run_impl_only(ctx):
    return run(ctx, model=False)


def replay(ctx, data):
    r = RP.replay(data)
    if r is not None:
        return r
    if FP.is_probe(data):
        if (data.get("case") or {}).get("tag") == "fault-probe:async-stop":
            return FP.replay_probe(ctx, data, [FP.ends_usable, FP.every_run_closed_once, _probe_abort_status])
        return FP.replay_probe(ctx, data, PROBE_JUDGES)
    return E.replay_property(ctx, data, oracle)
