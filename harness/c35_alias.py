"""Alias / mutation analysis of the RunNormalizer handlers (helper of props/C35.py).

A small abstract interpreter over the Python AST of one handler.  Every expression evaluates to a
set of *abstract references* `(root, path)`:

  root   IN      the document object the caller passed in
         W       the handler's working copy (`doc = copy.copy(doc)` / `copy.deepcopy(doc)`)
         CD      a document taken out of `self._datum_cache`
         CS      a document taken out of `self._sres_cache`
         K:<kind>:<root>   a copy made inside the handler/helper (`copy.deepcopy(self._sres_cache[..])`)
         PG      a document produced by event_model.unpack_*_page from IN (trusted: fresh top level)
  path   tuple of dictionary keys followed from the root; "*" = any key / any element

It records every statement that MUTATES an object reachable from such a reference
(`x[k] = v`, `del x[k]`, `x.pop/.update/.remove/.append/...`) as (root, path, op, key, lineno), every
store of a tracked document into one of the normalizer's caches, and the copy function used by the first
statement.  Anything it does not recognise that involves a tracked reference raises `Unrecognised` --
the extractor never guesses.
"""
from __future__ import annotations

import ast

MUTATORS = {"pop", "update", "remove", "append", "clear", "setdefault", "popitem", "insert", "extend", "sort", "reverse", "add", "discard", "__setitem__", "__delitem__"}
READERS = {"get", "keys", "values", "items", "copy", "strip", "lstrip", "rstrip", "joinpath", "difference", "startswith", "endswith", "split", "format", "lower", "upper", "index", "count", "union", "intersection"}
# functions that only read their arguments and return something fresh / scalar
PURE_FUNCS = {"set", "list", "map", "sum", "str", "len", "sorted", "Path", "tuple", "int", "float", "bool", "isinstance", "zip", "enumerate", "min", "max", "any", "all", "repr", "type",
              "StreamDatum", "StreamRange", "ExternalEventDataReference", "itertools.chain", "RuntimeError", "ValueError", "KeyError"}
CACHES = {"self._datum_cache": "CD", "self._sres_cache": "CS"}
HELPERS = {"self._convert_resource_to_stream_resource", "self._convert_datum_to_stream_datum"}
PAGE_UNPACKERS = {"unpack_event_page", "unpack_datum_page"}


class Unrecognised(Exception):
    pass


def dotted(node):
    if isinstance(node, ast.Name):
        return node.id
    if isinstance(node, ast.Attribute):
        b = dotted(node.value)
        return None if b is None else b + "." + node.attr
    return None


class Coll:
    """abstract iterable: `elems` = abstract references its elements may be; `nested` = iterables it may contain"""

    def __init__(self, elems=frozenset(), nested=()):
        self.elems = frozenset(elems)
        self.nested = tuple(nested)

    def flat(self):
        out = set(self.elems)
        for n in self.nested:
            out |= n.flat()
        return frozenset(out)


class Analysis:
    def __init__(self, cls: ast.ClassDef, module_consts: set[str]):
        self.cls = cls
        self.methods = {n.name: n for n in cls.body if isinstance(n, ast.FunctionDef)}
        self.consts = module_consts
        self.muts: list[tuple] = []  # (root, path, op, key, lineno)
        self.stores: list[tuple] = []  # (cache, root, path, lineno)
        self.emits: list[tuple] = []  # (root, path, lineno): tracked documents handed to subscribers
        self.leaks: list[tuple] = []  # (into_root, into_path, from_root, from_path, lineno)
        self.patched = False
        self.delegate = None  # page handlers: name of the per-document handler
        self._depth = 0

    # ------------------------------------------------------------------ values
    @staticmethod
    def ext(refs, key):
        return frozenset((r, p + (key,)) for r, p in refs)

    def key_of(self, node):
        if isinstance(node, ast.Constant) and isinstance(node.value, str):
            return node.value
        if isinstance(node, ast.JoinedStr):
            parts = []
            for v in node.values:
                parts.append(v.value if isinstance(v, ast.Constant) else "{}")
            return "".join(parts) if "{}" not in "".join(parts) else "*"
        return "*"

    def leak(self, into, refs, node):
        """a reference to (part of) one tracked object is stored inside another tracked object"""
        for r, p in sorted(into):
            for r2, p2 in sorted(refs):
                if (r2, p2[: len(p)]) != (r, p):  # storing a part of an object into itself adds no new alias class
                    self.leaks.append((r, p, r2, p2, node.lineno))

    def fresh(self, node, comps):
        """a new container (literal, comprehension, constructor call) holding the given values"""
        refs = set()
        for c in comps:
            if isinstance(c, tuple):
                for x in c:
                    refs |= x
            else:
                refs |= c.flat() if isinstance(c, Coll) else c
        if not refs:
            return frozenset()
        root = f"N:{node.lineno}"
        self.leak({(root, ())}, refs, node)
        return frozenset({(root, ())})

    def mutate(self, refs, op, key, node):
        for r, p in sorted(refs):
            self.muts.append((r, p, op, key, node.lineno))

    # ------------------------------------------------------------------ expressions
    def ev(self, n, env):
        """-> frozenset of abstract references, or a Coll (iterables)."""
        E = frozenset()
        if n is None or isinstance(n, ast.Constant):
            return E
        if isinstance(n, ast.Name):
            return env.get(n.id, E)
        if isinstance(n, ast.NamedExpr):
            v = self.ev(n.value, env)
            env[n.target.id] = v
            return v
        if isinstance(n, ast.Attribute):
            d = dotted(n)
            if d and d.startswith("self.") and d.count(".") == 1:
                # normalizer state: tracked as its own root so that documents parked in it are not lost
                return frozenset({("ST:" + n.attr, ())})
            base = self.ev(n.value, env)
            if base:
                raise Unrecognised(f"line {n.lineno}: attribute {n.attr} of a tracked document")
            return E
        if isinstance(n, ast.Subscript):
            d = dotted(n.value)
            if d in CACHES:
                self.ev(n.slice, env)
                return frozenset({(CACHES[d], ())})
            base = self.ev(n.value, env)
            self.ev(n.slice, env)
            if isinstance(base, Coll):
                return base.flat()
            return self.ext(base, self.key_of(n.slice)) if base else E
        if isinstance(n, ast.Call):
            return self.call(n, env)
        if isinstance(n, (ast.ListComp, ast.SetComp, ast.GeneratorExp, ast.DictComp)):
            env2 = dict(env)
            for g in n.generators:
                it = self.ev(g.iter, env2)
                self.bind_target(g.target, it, env2, iterating=True)
                for c in g.ifs:
                    self.ev(c, env2)
            if isinstance(n, ast.DictComp):
                return self.fresh(n, [self.ev(n.key, env2), self.ev(n.value, env2)])
            v = self.ev(n.elt, env2)
            if isinstance(n, ast.GeneratorExp):
                return Coll(nested=[v]) if isinstance(v, Coll) else Coll(elems=v)
            return self.fresh(n, [v])
        if isinstance(n, (ast.BoolOp,)):
            out = set()
            for v in n.values:
                x = self.ev(v, env)
                if isinstance(x, Coll):
                    x = x.flat()
                out |= x
            return frozenset(out)
        if isinstance(n, ast.IfExp):
            self.ev(n.test, env)
            a, b = self.ev(n.body, env), self.ev(n.orelse, env)
            return frozenset(a) | frozenset(b)
        if isinstance(n, (ast.Compare,)):
            self.ev(n.left, env)
            for c in n.comparators:
                self.ev(c, env)
            return E
        if isinstance(n, ast.BinOp):
            self.ev(n.left, env)
            self.ev(n.right, env)
            return E
        if isinstance(n, ast.UnaryOp):
            self.ev(n.operand, env)
            return E
        if isinstance(n, ast.JoinedStr):
            for v in n.values:
                if isinstance(v, ast.FormattedValue):
                    self.ev(v.value, env)
            return E
        if isinstance(n, (ast.Tuple, ast.List, ast.Set)):
            return self.fresh(n, [self.ev(e.value if isinstance(e, ast.Starred) else e, env) for e in n.elts])
        if isinstance(n, ast.Dict):
            return self.fresh(n, [self.ev(k, env) for k in n.keys if k is not None] + [self.ev(v, env) for v in n.values])
        if isinstance(n, ast.Starred):
            return self.ev(n.value, env)
        if isinstance(n, ast.Lambda):
            return E
        raise Unrecognised(f"line {getattr(n, 'lineno', '?')}: expression {type(n).__name__}")

    def call(self, n: ast.Call, env):
        E = frozenset()
        f = dotted(n.func)
        args = list(n.args) + [k.value for k in n.keywords]
        # copy.copy / copy.deepcopy
        if f in ("copy.copy", "copy.deepcopy") and len(n.args) == 1:
            src = self.ev(n.args[0], env)
            kind = "deep" if f.endswith("deepcopy") else "shallow"
            return frozenset((f"K:{kind}:{r}" + ("/" + "/".join(p) if p else ""), ()) for r, p in src)
        if f == "cast" and len(n.args) == 2:
            return self.ev(n.args[1], env)
        if f == "dict" and len(n.args) == 1:
            self.ev(n.args[0], env)
            return E
        if f == "patch" and len(n.args) == 1:
            self.patched = True
            return self.ev(n.args[0], env)  # assumption A-patch: the patch returns the working copy (or a fresh document)
        if f == "self.emit" and len(n.args) == 2:
            v = self.ev(n.args[1], env)
            for r, p in sorted(v):
                self.emits.append((r, p, n.lineno))
            return E
        if f in HELPERS:
            return self.inline(f.split(".")[1], n, env)
        if f in PAGE_UNPACKERS:
            src = self.ev(n.args[0], env)
            if any(r != "IN" for r, _ in src):
                raise Unrecognised(f"line {n.lineno}: {f} applied to something else than the input document")
            return Coll(elems={("PG", ())})
        if f and f.startswith("self.") and f.split(".")[1] in ("event", "datum") and len(n.args) == 1 and self.ev(n.args[0], env) == frozenset({("PG", ())}):
            self.delegate = f.split(".")[1]
            return E
        if f in PURE_FUNCS:
            if f == "itertools.chain":
                nested = []
                for a in n.args:
                    v = self.ev(a.value if isinstance(a, ast.Starred) else a, env)
                    if isinstance(v, Coll):
                        nested.append(v if not isinstance(a, ast.Starred) else Coll(nested=v.nested, elems=()))
                    elif v:
                        raise Unrecognised(f"line {n.lineno}: itertools.chain over a tracked non-iterable")
                return Coll(nested=nested)
            return self.fresh(n, [self.ev(a, env) for a in args])
        # method calls
        if isinstance(n.func, ast.Attribute):
            meth = n.func.attr
            recv_d = dotted(n.func.value)
            if recv_d in CACHES:
                for a in args:
                    self.ev(a, env)
                if meth in ("pop", "get"):
                    return frozenset({(CACHES[recv_d], ())})
                raise Unrecognised(f"line {n.lineno}: {recv_d}.{meth}")
            if recv_d in ("self.dispatcher",):
                raise Unrecognised(f"line {n.lineno}: direct use of {recv_d}")
            recv = self.ev(n.func.value, env)
            if isinstance(recv, Coll):
                recv = recv.flat()
            argvals = [self.ev(a, env) for a in args]
            if not recv:
                for v in argvals:
                    if isinstance(v, Coll):
                        v = v.flat()
                    if v and meth not in READERS:
                        raise Unrecognised(f"line {n.lineno}: tracked document passed to method .{meth}")
                return E
            if meth in MUTATORS:
                key = self.key_of(n.args[0]) if (n.args and meth in ("pop", "setdefault")) else "*"
                self.mutate(recv, meth, key, n)
                stored = set()
                for v in (argvals[1:] if meth in ("pop",) else argvals):
                    stored |= v.flat() if isinstance(v, Coll) else v
                self.leak(recv, stored, n)
                if meth in ("pop", "setdefault"):
                    out = set(self.ext(recv, key))
                    for v in argvals[1:]:
                        out |= v.flat() if isinstance(v, Coll) else v
                    return frozenset(out)
                return E
            if meth in ("values",):
                return Coll(elems=self.ext(recv, "*"))
            if meth in ("items",):
                c = Coll(elems=self.ext(recv, "*"))
                c.pairs = True
                return c
            if meth in ("keys",):
                return Coll()
            if meth == "get":
                out = set(self.ext(recv, self.key_of(n.args[0])))
                for v in argvals[1:]:
                    out |= v.flat() if isinstance(v, Coll) else v
                return frozenset(out)
            if meth in READERS:
                return E
            raise Unrecognised(f"line {n.lineno}: method .{meth} on a tracked document")
        # unknown plain function
        for a in args:
            v = self.ev(a, env)
            if isinstance(v, Coll):
                v = v.flat()
            if v:
                raise Unrecognised(f"line {n.lineno}: tracked document passed to unknown function {f}")
        return E

    def inline(self, name: str, n: ast.Call, env):
        if self._depth > 3:
            raise Unrecognised("helper recursion")
        fn = self.methods.get(name)
        if fn is None:
            raise Unrecognised(f"helper {name} not found")
        params = [a.arg for a in fn.args.args][1:]
        env2 = {}
        for p, a in zip(params, n.args):
            env2[p] = self.ev(a, env)
        for k in n.keywords:
            env2[k.arg] = self.ev(k.value, env)
        self._depth += 1
        rets = []
        self.block(fn.body, env2, rets)
        self._depth -= 1
        # join the returned abstract values position-wise (tuples) or as one set
        if rets and all(isinstance(r, tuple) for r in rets):
            width = max(len(r) for r in rets)
            return tuple(frozenset().union(*[r[i] for r in rets if i < len(r)]) for i in range(width))
        out = frozenset()
        for r in rets:
            out |= r
        return out

    # ------------------------------------------------------------------ statements
    def bind_target(self, target, value, env, iterating=False):
        if iterating:
            if isinstance(value, Coll):
                pairs = getattr(value, "pairs", False)
                elems = value.flat()
                if pairs and isinstance(target, ast.Tuple) and len(target.elts) == 2:
                    env[target.elts[0].id] = frozenset()
                    self.bind_target(target.elts[1], elems, env)
                    return
                value = Coll(nested=value.nested) if (value.nested and not value.elems and any(isinstance(x, Coll) and x.nested for x in value.nested)) else elems
                if isinstance(value, Coll):
                    value = value.flat()
            else:
                value = self.ext(value, "*") if value else frozenset()
        if isinstance(target, ast.Name):
            env[target.id] = value
        elif isinstance(target, (ast.Tuple, ast.List)):
            if isinstance(value, tuple):
                for t, v in zip(target.elts, value):
                    self.bind_target(t, v, env)
            else:
                for t in target.elts:
                    self.bind_target(t, value if not isinstance(value, Coll) else value.flat(), env)
        elif isinstance(target, ast.Subscript):
            d = dotted(target.value)
            if d in CACHES:
                v = value.flat() if isinstance(value, Coll) else value
                for r, p in sorted(v):
                    self.stores.append((CACHES[d], r, p, target.lineno))
                return
            base = self.ev(target.value, env)
            if isinstance(base, Coll):
                base = base.flat()
            kv = self.ev(target.slice, env)
            if base:
                self.mutate(base, "setitem", self.key_of(target.slice), target)
                v = value.flat() if isinstance(value, Coll) else (frozenset().union(*value) if isinstance(value, tuple) else value)
                self.leak(base, set(v) | set(kv.flat() if isinstance(kv, Coll) else kv), target)
        elif isinstance(target, ast.Attribute):
            v = value.flat() if isinstance(value, Coll) else value
            if v:
                raise Unrecognised(f"line {target.lineno}: tracked document stored in attribute")
        else:
            raise Unrecognised(f"line {target.lineno}: assignment target {type(target).__name__}")

    def block(self, stmts, env, rets):
        for st in stmts:
            self.stmt(st, env, rets)

    def stmt(self, st, env, rets):
        if isinstance(st, ast.Expr):
            if isinstance(st.value, ast.Constant):
                return
            self.ev(st.value, env)
        elif isinstance(st, ast.Assign):
            v = self.ev(st.value, env)
            for t in st.targets:
                self.bind_target(t, v, env)
        elif isinstance(st, ast.AnnAssign):
            v = self.ev(st.value, env) if st.value else frozenset()
            self.bind_target(st.target, v, env)
        elif isinstance(st, ast.AugAssign):
            v = self.ev(st.value, env)
            if v or self.ev(st.target, env):
                raise Unrecognised(f"line {st.lineno}: augmented assignment on a tracked document")
        elif isinstance(st, ast.Delete):
            for t in st.targets:
                if isinstance(t, ast.Subscript):
                    base = self.ev(t.value, env)
                    if base:
                        self.mutate(base, "delitem", self.key_of(t.slice), t)
                else:
                    raise Unrecognised(f"line {st.lineno}: del")
        elif isinstance(st, ast.If):
            self.ev(st.test, env)
            e1, e2 = dict(env), dict(env)
            self.block(st.body, e1, rets)
            self.block(st.orelse, e2, rets)
            for k in set(e1) | set(e2):
                a, b = e1.get(k, frozenset()), e2.get(k, frozenset())
                if isinstance(a, (Coll, tuple)) or isinstance(b, (Coll, tuple)):
                    env[k] = a if isinstance(a, (Coll, tuple)) else b
                else:
                    env[k] = a | b
        elif isinstance(st, ast.For):
            it = self.ev(st.iter, env)
            # two passes: bindings made late in the body are visible to statements early in the next iteration
            for _ in range(2):
                self.bind_target(st.target, it, env, iterating=True)
                n_before = len(self.muts), len(self.stores), len(self.emits), len(self.leaks)
                self.block(st.body, env, rets)
                if _ == 0:
                    del self.muts[n_before[0]:], self.stores[n_before[1]:], self.emits[n_before[2]:], self.leaks[n_before[3]:]
            self.block(st.orelse, env, rets)
        elif isinstance(st, ast.Return):
            if isinstance(st.value, ast.Tuple):
                rets.append(tuple(self._flat(self.ev(e, env)) for e in st.value.elts))
            else:
                rets.append(self._flat(self.ev(st.value, env)))
        elif isinstance(st, ast.Raise):
            self.ev(st.exc, env)
        elif isinstance(st, (ast.Pass, ast.Continue, ast.Break)):
            pass
        else:
            raise Unrecognised(f"line {st.lineno}: statement {type(st).__name__}")

    @staticmethod
    def _flat(v):
        return v.flat() if isinstance(v, Coll) else frozenset(v)


def analyse_handler(cls: ast.ClassDef, name: str, consts: set[str]):
    """-> dict(copy, delegate, muts, stores, emits, patched, line)"""
    a = Analysis(cls, consts)
    fn = a.methods.get(name)
    if fn is None:
        raise Unrecognised(f"handler {name} not found")
    if [x.arg for x in fn.args.args] != ["self", "doc"]:
        raise Unrecognised(f"handler {name}: unexpected signature")
    body = list(fn.body)
    if body and isinstance(body[0], ast.Expr) and isinstance(body[0].value, ast.Constant):
        body = body[1:]
    env = {"doc": frozenset({("IN", ())})}
    copy_kind = "none"
    first = body[0] if body else None
    if (
        isinstance(first, ast.Assign)
        and len(first.targets) == 1
        and isinstance(first.targets[0], ast.Name)
        and first.targets[0].id == "doc"
        and isinstance(first.value, ast.Call)
        and dotted(first.value.func) in ("copy.copy", "copy.deepcopy")
        and len(first.value.args) == 1
        and dotted(first.value.args[0]) == "doc"
    ):
        copy_kind = "deep" if dotted(first.value.func) == "copy.deepcopy" else "shallow"
        env["doc"] = frozenset({("W", ())})
        body = body[1:]
    rets: list = []
    a.block(body, env, rets)
    return {
        "copy": copy_kind,
        "delegate": a.delegate,
        "muts": a.muts,
        "stores": a.stores,
        "emits": a.emits,
        "leaks": a.leaks,
        "patched": a.patched,
        "line": fn.lineno,
    }
