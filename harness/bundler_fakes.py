"""Fake devices for the bundler properties (C15, C16, C05, C45).

Plain synchronous methods with scripted, deterministic values.  Every fake records the calls made on
it in a shared ledger (`ledger`, a list owned by the harness) so that the model's predicted device
calls can be compared with what the real bundler / engine did.
"""
from __future__ import annotations


class _Status:
    """A status object that is already done."""

    done = True
    success = True

    def add_callback(self, cb):
        cb(self)

    def exception(self, timeout=None):
        return None


class NullLog:
    """stand-in for the harness' environment log"""

    def begin(self, op):
        return None

    def end(self, tok, exc=None):
        pass


class Dev:
    """Readable + Configurable + Subscribable + Triggerable fake.

    keys      describe() keys (also the keys of every reading)
    cfg       current configuration: dict key -> int   (changed by configure() or poke())
    bad_read  optional list of keys returned by read() instead of `keys` (a device violating its own describe)
    """

    parent = None

    def __init__(self, name, keys, cfg=None, ledger=None, bad_read=None, oplog=None):
        self.name = name
        self.keys = list(keys)
        self.cfg = dict(cfg or {})
        self.ledger = ledger if ledger is not None else []
        self.oplog = oplog if oplog is not None else NullLog()
        self.bad_read = bad_read
        self.value = 0
        self.nreads = 0
        self.cbs = []

    def __repr__(self):
        return f"Dev({self.name})"

    # Readable
    def peek(self):
        """[[key, value]...] that the next read() will return (every read returns fresh values)"""
        ks = self.bad_read if self.bad_read is not None else self.keys
        return [[k, self.value * 100 + self.nreads + 1] for k in ks]

    def read(self):
        self.ledger.append([self.name, "read"])
        out = {k: {"value": v, "timestamp": 0.0} for k, v in self.peek()}
        self.nreads += 1
        return out

    def describe(self):
        self.ledger.append([self.name, "describe"])
        return {k: {"source": "fake", "dtype": "number", "shape": []} for k in self.keys}

    # Configurable
    def read_configuration(self):
        self.ledger.append([self.name, "read_configuration"])
        return {k: {"value": v, "timestamp": 0.0} for k, v in self.cfg.items()}

    def describe_configuration(self):
        self.ledger.append([self.name, "describe_configuration"])
        return {k: {"source": "fake", "dtype": "number", "shape": []} for k in self.cfg}

    def configure(self, new):
        self.ledger.append([self.name, "configure"])
        old = dict(self.cfg)
        self.cfg = dict(new)
        self.oplog.end(self.oplog.begin({"op": "setCfg", "obj": self.name, "cfg": sorted(map(list, self.cfg.items()))}))
        return old, dict(new)

    def poke(self, new):
        """Change the configuration behind the engine's back (no configure message)."""
        self.cfg = dict(new)
        self.oplog.end(self.oplog.begin({"op": "setCfg", "obj": self.name, "cfg": sorted(map(list, self.cfg.items()))}))

    # Triggerable
    def trigger(self):
        self.ledger.append([self.name, "trigger"])
        return _Status()

    # Subscribable
    def subscribe(self, cb, **kwargs):
        self.ledger.append([self.name, "subscribe"])
        self.cbs.append(cb)

    def clear_sub(self, cb):
        self.ledger.append([self.name, "clear_sub"])
        self.cbs = [c for c in self.cbs if c is not cb]

    def fire(self, value):
        """Deliver one update to every subscribed callback (synchronously)."""
        self.value = value
        for cb in list(self.cbs):
            tok = self.oplog.begin({"op": "monitorUpdate", "obj": self.name, "reading": [[k, value] for k in self.keys]})
            try:
                cb({k: {"value": value, "timestamp": 0.0} for k in self.keys})
            except Exception as e:
                self.oplog.end(tok, e)
                raise
            self.oplog.end(tok)


class Det:
    """Flyable + Collectable + WritesStreamAssets fake obeying the stream-asset contract:

    * `get_index()` returns the number of frames written so far (monotone; advanced by `advance(n)`)
    * `collect_asset_docs(index)` yields, the first time, one stream_resource per data key, then for
      every data key one stream_datum with indices [last_reported, index) when index > last_reported,
      and remembers `index` as last_reported.  `index=None` means "up to my own current index".
      (A scripted misbehaviour forces datums even when index <= last_reported; their range is then the
      empty range at last_reported, never a reversed one: ranges are naturals in the Lean model.)

    `misbehave` lets the harness script contract violations for single collects (malformed stream):
      {"width": d}    report a range wider by d for the 2nd data key
      {"resend": 1}   emit the stream_resources again
      {"seq": 1}      pre-filled seq_nums
      {"desc": 1}     pre-filled descriptor
      {"unknown": 1}  datum for an unknown stream_resource
    """

    parent = None

    def __init__(self, name, keys, ledger=None, oplog=None):
        self.name = name
        self.keys = list(keys)
        self.ledger = ledger if ledger is not None else []
        self.oplog = oplog if oplog is not None else NullLog()
        self.index = 0
        self.last = 0
        self.sent_resources = False
        self.ndatum = 0
        self.misbehave = None
        self.cfg = {}

    def __repr__(self):
        return f"Det({self.name})"

    def __hash__(self):
        # deterministic iteration order of the bundler's `_uncollected` set / frozensets of detectors:
        # small consecutive hashes => set order is name order (x, y, z)
        return ord(self.name[0])

    def __eq__(self, other):
        return self is other

    def advance(self, n):
        self.index += n
        self.oplog.end(self.oplog.begin({"op": "advance", "obj": self.name, "n": n}))

    def kickoff(self):
        self.ledger.append([self.name, "kickoff"])
        return _Status()

    def complete(self):
        self.ledger.append([self.name, "complete"])
        return _Status()

    def describe_collect(self):
        self.ledger.append([self.name, "describe_collect"])
        return {k: {"source": "fake", "dtype": "number", "shape": [], "external": "STREAM:"} for k in self.keys}

    def get_index(self):
        self.ledger.append([self.name, "get_index"])
        return self.index

    def _resource(self, k):
        return (
            "stream_resource",
            {
                "uid": f"sr-{self.name}-{k}",
                "data_key": k,
                "mimetype": "application/x-hdf5",
                "uri": f"file://localhost/{self.name}.h5",
                "parameters": {},
            },
        )

    def collect_asset_docs(self, index=None):
        self.ledger.append([self.name, "collect_asset_docs"])
        mis, self.misbehave = self.misbehave or {}, None
        if index is None:
            index = self.index
        if not self.sent_resources or mis.get("resend"):
            self.sent_resources = True
            for k in self.keys:
                yield self._resource(k)
        if index > self.last or mis:
            for i, k in enumerate(self.keys):
                stop = max(index, self.last) + (mis.get("width", 0) if i == len(self.keys) - 1 else 0)
                self.ndatum += 1
                yield (
                    "stream_datum",
                    {
                        "uid": f"sd-{self.name}-{self.ndatum}",
                        "stream_resource": f"sr-{self.name}-{k}" + ("-x" if mis.get("unknown") else ""),
                        "descriptor": "pre" if mis.get("desc") else "",
                        "indices": {"start": self.last, "stop": stop},
                        "seq_nums": {"start": 1, "stop": 2} if mis.get("seq") else {"start": 0, "stop": 0},
                    },
                )
            self.last = max(self.last, index)
