"""In-memory stand-ins for the `zmq` and `zmq.asyncio` modules (C33).

Publisher(zmq=FakeZmq(bus)) appends every sent message to `bus.frames`;
RemoteDispatcher(zmq=..., zmq_asyncio=FakeZmqAsyncio(frames)) receives exactly those messages, in
order, from an awaitable `recv` that really suspends (one loop iteration per message) and raises
`Drained` -- a BaseException no handler of `_poll` can catch -- once the queue is empty.
No sockets, no ports, no threads.
"""
from __future__ import annotations

import asyncio


class Drained(BaseException):
    """the queue is empty: `_poll` would wait for the next message forever"""


class Bus:
    def __init__(self):
        self.frames: list[bytes] = []


class _PubSocket:
    def __init__(self, bus):
        self.bus = bus
        self.closed = False
        self.url = None

    def connect(self, url):
        self.url = url

    def send(self, message):
        if self.closed:
            raise RuntimeError("send on closed socket")
        if not isinstance(message, (bytes, bytearray, memoryview)):
            raise TypeError(f"zmq sends bytes, got {type(message).__name__}")
        self.bus.frames.append(bytes(message))

    def setsockopt_string(self, *a):
        pass

    def close(self):
        self.closed = True


class _Context:
    def __init__(self, make):
        self._make = make

    def socket(self, kind):
        return self._make(kind)

    def destroy(self):
        pass

    def term(self):
        pass


class FakeZmq:
    PUB, SUB, SUBSCRIBE, FORWARDER = 1, 2, 6, 2

    def __init__(self, bus: Bus):
        self.bus = bus

    def Context(self, *a):
        return _Context(lambda kind: _PubSocket(self.bus))


class _SubSocket:
    def __init__(self, owner):
        self.owner = owner

    def connect(self, url):
        pass

    def setsockopt_string(self, opt, val):
        pass

    async def recv(self):
        await asyncio.sleep(0)  # a real suspension point, like awaiting the network
        o = self.owner
        if o.pos >= len(o.frames):
            raise Drained()
        m = o.frames[o.pos]
        o.pos += 1
        o.consumed += 1
        return m

    def close(self):
        pass


class FakeZmqAsyncio:
    def __init__(self, frames):
        self.frames = list(frames)
        self.pos = 0
        self.consumed = 0

    def Context(self, *a):
        return _Context(lambda kind: _SubSocket(self))
