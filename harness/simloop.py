"""Deterministic asyncio loop for driving the real RunEngine.

* virtual clock: `time()` is a counter; when nothing is ready the loop first asks `idle_hook`
  (the environment script: quiescence arrivals) and otherwise jumps to the next timer;
* everything else is the stock SelectorEventLoop, so call_soon_threadsafe from the main thread
  (RE.__call__, resume, abort, ...) works as usual.

The RunEngine runs this loop in its own daemon thread (`_ensure_event_loop_running`); the main
thread blocks in `_during_task.block(...)`.  All environment actions are issued on the loop
thread, from hooks, so a scenario is a deterministic function of its script.
"""
from __future__ import annotations

import asyncio
import heapq
import threading


class SimLoop(asyncio.SelectorEventLoop):
    def __init__(self):
        super().__init__()
        self._vtime = 0.0
        self.idle_hook = None  # callable() -> bool ; True if it scheduled / did something
        self.busy = threading.Event()  # set while the engine task is supposed to be making progress
        self.iterations = 0

    def time(self):
        return self._vtime

    def _run_once(self):
        self.iterations += 1
        # drop cancelled timers at the head
        while self._scheduled and self._scheduled[0]._cancelled:
            h = heapq.heappop(self._scheduled)
            h._scheduled = False
            self._timer_cancelled_count = max(0, self._timer_cancelled_count - 1)
        if not self._ready and self.busy.is_set():
            acted = False
            if self.idle_hook is not None:
                acted = bool(self.idle_hook())
                if acted and not self._ready:
                    # the action woke nothing up: come back to the idle hook instead of blocking in select
                    self.call_soon(lambda: None)
            if not acted and not self._ready and self._scheduled:
                # nothing to do now: jump the virtual clock to the next timer
                nxt = self._scheduled[0]._when
                if nxt > self._vtime:
                    self._vtime = nxt
        super()._run_once()


def run_coro_sync(coro):
    """Run a coroutine that never really awaits (all request coroutines of the RunEngine) to completion."""
    try:
        coro.send(None)
    except StopIteration as e:
        return e.value
    else:
        coro.close()
        raise RuntimeError("coroutine suspended unexpectedly")
