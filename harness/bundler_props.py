"""Shared `run / run_impl_only / replay / extract` for the four bundler properties."""
from __future__ import annotations

import json

import bundler_common as B
import bundler_extract as E
import bundler_gen as G
import bundler_oracles as O
import common as C

DRIVER_MODULES = ["BlueskyVerif.Bundler.Types", "BlueskyVerif.Bundler.Generated", "BlueskyVerif.Bundler.Model", "BlueskyVerif.Bundler.Guards", "BlueskyVerif.Bundler.Driver"]
TRUSTED = [
    "harness/bundler_extract.py (AST queries on bundlers.py / run_engine.py / event_model -> Bundler/Generated.lean)",
    "event_model 1.x counter handling: ComposeDescriptor sets a new stream's counter to 1, ComposeEvent reads it and writes seq_num+1, ComposeStop reports v-1 and refuses a second stop, key-set validation of events/descriptors (extracted constants, modelled by hand, tied by the correspondence run)",
    "harness/bundler_fakes.py: devices with constant describe(), name-ordered hashing of detectors (iteration order of the bundler's sets)",
]
ASSUMPTIONS = [
    "one run key; the replay of cached messages after a resume is observed (msg_hook), not modelled -- the guard layer only decides record_interruption / rewind / reset_checkpoint_state order",
    "devices: describe()/describe_collect() are constant per device; readings and configuration values are integers; timestamps dropped",
    "not modelled: Resource/Datum documents of WritesExternalAssets devices inside read/save, old-style (doubly nested describe_collect) flyers, collect of Event(Page)Collectable devices, hints, `filled`, stream=True",
]


def extract(ctx):
    return E.extract(ctx)


def _nontrivial(case, obs):
    cmds = {e["msg"]["cmd"] for e in obs["entries"]}
    return any(e["err"] for e in obs["entries"]) or bool(cmds & {"pause", "resume", "configure", "fire", "collect", "poke"})


def cases_for(ctx, prop, profile, quick, thorough, exhaustive=()):
    corpus = C.VERIF / "corpus" / prop
    if corpus.exists():
        for f in sorted(corpus.glob("*.json")):
            yield json.loads(f.read_text())["case"]
    for gen in exhaustive:
        yield from gen()
    for _ in range(ctx.budget(quick, thorough)):
        yield G.gen_case(ctx.rng, profile)
    # a slice of the neighbouring profile keeps the shared model honest for every property
    for _ in range(ctx.budget(quick // 6, thorough // 6)):
        yield G.gen_case(ctx.rng, "mix")


def run(ctx, prop, profile, quick, thorough, exhaustive=(), model=True, rule=""):
    res = C.Result(rule=rule)
    oracle = O.ORACLES[prop]
    cases, obss, lines, idx = [], [], [], []
    for case in cases_for(ctx, prop, profile, quick, thorough, exhaustive):
        obs = B.observe(case)
        cases.append(case)
        obss.append(obs)
        res.seen(case, _nontrivial(case, obs))
        for e in obs["entries"]:
            res.count("msg:" + e["msg"]["cmd"])
            if e["err"]:
                res.count("err:" + e["err"])
        for sig, what in oracle(case, obs):
            res.violations.append(C.Violation(sig, what, case))
        if model:
            g, bs = B.model_requests(case, obs)
            idx.append((len(lines), len(bs)))
            lines.append(json.dumps(g))
            lines += [json.dumps(b) for b in bs]
    if model:
        replies = C.lean_batch(f"Drivers/{prop}.lean", lines)
        for case, obs, (i, k) in zip(cases, obss, idx):
            bad = B.compare(case, obs, json.loads(replies[i]), [json.loads(r) for r in replies[i + 1 : i + 1 + k]])
            for b in bad[:1]:
                res.disagreements.append({"case": case, "first_difference": b})
        for j in (0, len(cases) // 2, len(cases) - 1):
            i, k = idx[j]
            res.samples.append({"case": cases[j], "impl": [{"msg": e["msg"], "docs": [d["kind"] for d in e["docs"]], "err": e["err"]} for e in obss[j]["entries"]][:40], "model": [{"docs": [d["kind"] for d in m["docs"]], "err": m["err"]} for m in json.loads(replies[i]).get("entries", [])][:40]})
    elif cases:
        res.samples.append({"case": cases[-1]})
    res.facts = {"cases": len(cases)}
    return res


def replay(ctx, prop, data):
    res = C.Result()
    case = data.get("case")
    if not case:
        return res
    obs = B.observe(case)
    for sig, what in O.ORACLES[prop](case, obs):
        res.violations.append(C.Violation(sig, what, case))
    return res
