"""Scenario generation, model/implementation comparison and oracles shared by the engine properties."""
from __future__ import annotations

import copy
import json

import common as C
from engine_impl import run_scenario

DRIVER = "Drivers/Engine.lean"
DRIVER_MODULES = ["BlueskyVerif.Engine.Sim", "BlueskyVerif.Engine.Ast", "BlueskyVerif.Util.DriverLib"]
COMPARE_KEYS = ["msgs", "trans", "refused", "docs", "ledger", "yields", "arrivals", "returns", "subs_left", "final_state"]


def M(cmd, obj=None, *args, run=None, **kw):
    return {"k": "msg", "cmd": cmd, "obj": obj, "args": list(args), "kw": kw, "run": run}


def seq(*body):
    return {"k": "seq", "body": list(body)}


def number(sc):
    """give every msg statement of the scenario (plan + action plans) a static id"""
    n = [0]

    def walk(st):
        if st is None:
            return
        if st["k"] == "msg":
            st["id"] = n[0]
            n[0] += 1
        elif st["k"] == "seq":
            for s in st["body"]:
                walk(s)
        elif st["k"] == "try":
            walk(st["body"])
            walk(st.get("handler"))
            walk(st.get("fin"))

    walk(sc["plan"])
    for k in sorted(sc.get("script", {}), key=int):
        for a in sc["script"][k]:
            if a["a"] == "suspend":
                walk(a.get("pre"))
                walk(a.get("post"))
    return sc


def canon_ledger(led):
    """_movable_objs_touched / _staged / _objs_seen are sets: the order inside a run of equal operations
    (stop, unstage, pause, resume) is hash order -> sort each such run by device name."""
    out, i = [], 0
    while i < len(led):
        j = i
        while j < len(led) and led[j][1] == led[i][1] and led[i][1] in ("stop", "unstage", "pause", "resume"):
            j += 1
        if j > i + 1:
            out += sorted(led[i:j], key=lambda e: e[0])
            i = j
        else:
            out.append(led[i])
            i += 1
    return out


def canon_yields(ys):
    # PEP 380: a GeneratorExit subclass (PlanHalt) thrown into a delegating generator reaches the inner
    # generators as close() -> plain GeneratorExit; both are "closed" for the plan
    # closes (also by garbage collection of an abandoned frame) are not compared: only what the plan
    # is sent / thrown while it can still react
    return [y for y in ys if y[0] >= 0 and not (y[1] == "throw" and y[2] in ("PlanHalt", "GeneratorExit"))]


def canon_model(m):
    m = dict(m)
    m["ledger"] = canon_ledger(m["ledger"])
    m["yields"] = canon_yields(m["yields"])
    return m


def canon_impl(o):
    o = dict(o)
    o["ledger"] = canon_ledger(o["ledger"])
    docs = []
    for d in o["docs"]:
        d = {k: v for k, v in d.items() if k != "reason_text"}
        docs.append(d)
    o["docs"] = docs
    o["yields"] = canon_yields(o["yields"])
    return {k: o[k] for k in COMPARE_KEYS}


def diff(model, impl):
    for k in COMPARE_KEYS:
        if model.get(k) != impl.get(k):
            a, b = model.get(k), impl.get(k)
            if isinstance(a, list) and isinstance(b, list):
                for i, (x, y) in enumerate(zip(a, b)):
                    if x != y:
                        return {"key": k, "index": i, "model": x, "impl": y}
                return {"key": k, "index": min(len(a), len(b)), "model": a[len(b):][:2], "impl": b[len(a):][:2], "lens": [len(a), len(b)]}
            return {"key": k, "model": a, "impl": b}
    return None


def run_both(scenarios, model=True):
    impl = [run_scenario(sc) for sc in scenarios]
    if not model:
        return impl, None
    replies = C.lean_batch(DRIVER, [json.dumps(sc) for sc in scenarios])
    return impl, [canon_model(json.loads(r)) for r in replies]


# ----------------------------------------------------------------------------- scenario generator
def gen_plan(rng, size=None):
    """A mostly-valid plan: runs with checkpointed points, decorated with the engine features."""
    motors, dets, sigs = ["m1", "m2"], ["d1", "d2"], ["s1"]
    size = size or rng.choice([1, 1, 2, 2, 3])

    def point(run=None):
        b = []
        if rng.random() < 0.85:
            b.append(M("checkpoint"))
        grp = rng.choice([None, "g", "h"])
        for m in motors:
            if rng.random() < 0.5:
                b.append(M("set", m, rng.choice([0, 1, 2, 3, 5]), **({"group": grp} if grp else {})))
        if rng.random() < 0.7:
            b.append(M("wait", None, **{"group": grp}) if grp else M("wait", None, group=None))
        if rng.random() < 0.3:
            b.append(M("trigger", "d1", group="t"))
            b.append(M("wait", None, group="t"))
        if rng.random() < 0.2:
            b.append(M("sleep", None, rng.choice([0, 1, 5])))
        b.append(M("create", None, name=rng.choice(["primary", "primary", "baseline"]), run=run))
        for d in dets:
            if rng.random() < 0.7:
                b.append(M("read", d, run=run))
        if rng.random() < 0.15:
            b.append(M("read", "m1", run=run))
        b.append(M("save", run=run) if rng.random() < 0.9 else M("drop", run=run))
        return b

    def extras():
        r = rng.random()
        if r < 0.12:
            return [M("pause", None, defer=rng.random() < 0.5)]
        if r < 0.20:
            return [M("null")]
        if r < 0.25:
            return [M("clear_checkpoint")]
        if r < 0.32:
            return [M("rewindable", None, rng.random() < 0.5)]
        if r < 0.37:
            return [M("bogus")]
        if r < 0.42:
            return [{"k": "raise"}]
        if r < 0.50:
            return [M("sleep", None, rng.choice([0, 2]))]
        if r < 0.55:
            return [M("checkpoint")]
        return []

    def run_block(key=None):
        b = [M("open_run", run=key)]
        mon = rng.random() < 0.25
        if mon:
            b.append(M("monitor", "s1", run=key, name="s1_monitor"))
        for _ in range(rng.choice([1, 1, 2, 3])):
            b += point(key)
            b += extras()
        if mon and rng.random() < 0.7:
            b.append(M("unmonitor", "s1", run=key))
        if rng.random() < 0.9:
            kw = {}
            if rng.random() < 0.2:
                kw["exit_status"] = rng.choice(["success", "abort", "fail"])
            b.append(M("close_run", run=key, **kw))
        return b

    body = []
    staged = [d for d in motors + dets if rng.random() < 0.4]
    for d in staged:
        body.append(M("stage", d))
    for i in range(size):
        r = rng.random()
        if r < 0.15:
            # two interleaved runs with keys
            a, b = run_block("a"), run_block("b")
            merged = []
            while a or b:
                src = a if (a and (not b or rng.random() < 0.5)) else b
                merged.append(src.pop(0))
            body += merged
        elif r < 0.25:
            body += point()  # bundle without a run: malformed
        else:
            body += run_block()
        body += extras()
    unst = [M("unstage", d) for d in reversed(staged)]
    r = rng.random()
    if r < 0.4 and unst:
        return {"k": "try", "body": seq(*body), "handler": None, "fin": seq(*unst)}
    if r < 0.5:
        return {"k": "try", "body": seq(*body), "handler": seq(M("null")), "fin": seq(*unst) if unst else None}
    return seq(*(body + unst))


def gen_devices(rng):
    def modes(ops):
        out = {}
        for op in ops:
            if rng.random() < 0.35:
                out[op] = [rng.choice(["done", "done", "pending", "fail", "raise"]) for _ in range(rng.choice([1, 2, 4]))]
        return out

    devs = {
        "m1": {"kind": "motor", "modes": modes(["set", "stop"]), "pausable": rng.random() < 0.3},
        "m2": {"kind": "motor", "modes": modes(["set"])},
        "d1": {"kind": "det", "modes": modes(["trigger", "read"]), "offset": 1},
        "d2": {"kind": "det", "modes": modes(["stage", "unstage"]), "offset": 2},
        "s1": {"kind": "sig"},
    }
    if devs["m1"]["pausable"] and rng.random() < 0.3:
        devs["m1"]["modes"]["pause"] = [rng.choice(["done", "noreplay"])]
    return devs


def small_plan(rng):
    k = rng.choice([0, 1, 2])
    if k == 0:
        return None
    return seq(*[M("null") for _ in range(k)])


def gen_script(rng, n_arr, dense=False):
    script = {}
    k = rng.choice([0, 1, 1, 2, 3]) if not dense else rng.choice([2, 3, 4])
    fut = 0
    for _ in range(k):
        at = rng.randrange(0, max(1, n_arr + 2))
        if rng.random() < 0.2:
            at = max(0, n_arr - 1)  # the exit sleep(0) of _run (S4) when the plan runs to completion
        r = rng.random()
        if r < 0.35:
            act = {"a": "pause", "defer": rng.random() < 0.25}
        elif r < 0.6:
            act = {"a": "suspend", "fut": fut, "pre": small_plan(rng), "post": small_plan(rng), "just": rng.choice([None, "beam"])}
            if rng.random() < 0.6:
                rel = at + rng.randrange(1, 6)
                script.setdefault(str(rel), []).append({"a": "release", "fut": fut})
            fut += 1
        elif r < 0.7:
            act = {"a": "abort"}
        elif r < 0.78:
            act = {"a": "stop"}
        elif r < 0.84:
            act = {"a": "halt"}
        elif r < 0.92:
            act = {"a": "status", "id": rng.randrange(0, 4), "ok": rng.random() < 0.6}
        else:
            act = {"a": "monitor", "sig": "s1", "v": rng.randrange(1, 9)}
        script.setdefault(str(at), []).append(act)
    return script


def gen_scenario(rng, dense=False):
    sc = {"record_interruptions": rng.random() < 0.5, "devices": gen_devices(rng), "plan": gen_plan(rng), "script": {}, "decisions": [rng.choice(["resume", "resume", "resume", "abort", "stop", "halt"]) for _ in range(6)], "max_arrivals": 300}
    base = run_scenario(number(copy.deepcopy(sc)))
    sc["script"] = gen_script(rng, len(base["arrivals"]), dense)
    return number(sc)


# ----------------------------------------------------------------------------- shared check runner
def _impl_worker(sc):
    try:
        return run_scenario(sc)
    except Exception as e:  # noqa
        return {"crash": f"{type(e).__name__}: {e}"}


def run_many(scenarios, workers=1):
    if workers <= 1 or len(scenarios) < 40:
        return [_impl_worker(sc) for sc in scenarios]
    import multiprocessing as mp

    with mp.get_context("fork").Pool(workers) as pool:
        return pool.map(_impl_worker, scenarios, chunksize=8)


def features(sc, o):
    f = set()
    for acts in sc.get("script", {}).values():
        for a in acts:
            f.add("act:" + a["a"] + (":defer" if a.get("defer") else ""))
    for r in o.get("returns", []):
        f.add("ret:" + r[1])
    for k in set(o.get("arrivals", [])):
        f.add("arr:" + k)
    if o.get("refused"):
        f.add("refused")
    for t in o.get("trans", []):
        f.add("state:" + t[1])
    return f


def run_property(ctx, prop, oracle, gen=None, quick=150, thorough=3000, model=True, extra_scenarios=()):
    """Generic engine check: corpus + generated scenarios on the real RunEngine; `oracle(sc, obs)` ->
    list of (sig, what); the same scenarios through the Lean model; disagreements reported."""
    res = C.Result(rule="scenario = generated plan AST x fake-device modes x environment script (requests / status completions / monitor updates placed at arrival indices of _run's suspension points) x post-pause decisions; non-trivial = at least one request, refusal, device failure or non-success exit occurred; distinct by scenario hash")
    scs = []
    corpus = C.VERIF / "corpus" / prop
    if corpus.exists():
        for f in sorted(corpus.glob("*.json")):
            scs.append(json.loads(f.read_text())["case"])
    scs += list(extra_scenarios)
    gen = gen or gen_scenario
    for _ in range(ctx.budget(quick, thorough)):
        scs.append(gen(ctx.rng))
    workers = 12 if (ctx.tier == "thorough" or ctx.deep) else 1
    impl = run_many(scs, workers)
    models = None
    if model:
        replies = C.lean_batch(DRIVER, [json.dumps(sc) for sc in scs], timeout=3000)
        models = [canon_model(json.loads(r)) for r in replies]
    dropped = 0
    for idx, (sc, o) in enumerate(zip(scs, impl)):
        if "crash" in o:
            res.notes.append("harness crash: " + o["crash"])
            continue
        # A scenario under SimLoop is a deterministic function of its script.  The first pass runs in a pool of forked
        # workers; if it produced a verdict (oracle violation or model/implementation difference), the scenario is run
        # again, alone, in this process, and only a verdict that shows up again is reported.  (Seen once under extreme
        # machine load: a worker's observation of one scenario of a sweep family was that of a neighbouring arrival index.)
        suspicious = bool(oracle(sc, o)) or (models is not None and diff(models[idx], canon_impl(o)) is not None)
        if suspicious and workers > 1:
            o2 = _impl_worker(sc)
            if "crash" not in o2 and canon_impl(o2) != canon_impl(o):
                o3 = _impl_worker(sc)
                if "crash" not in o3 and canon_impl(o3) == canon_impl(o2):
                    dropped += 1
                    res.count("harness:first-pass-observation-not-reproducible")
                    res.notes.append(f"scenario #{idx}: the pooled first pass differed from two identical serial re-runs; the re-run is used")
                    o = o2
                    impl[idx] = o2
        fs = features(sc, o)
        nontriv = bool(fs - {"ret:return", "arr:S1", "arr:S4", "state:running", "state:idle"})
        res.seen(sc, nontriv)
        for f in fs:
            res.count(f)
        for sig, what in oracle(sc, o):
            res.violations.append(C.Violation(sig, what, sc))
        if models is not None:
            d = diff(models[idx], canon_impl(o))
            if d:
                res.disagreements.append({"case": sc, "first_difference": d, "impl": {k: o.get(k) for k in ("arrivals", "trans", "returns", "refused", "notes", "msgs")},
                                          "model": {k: models[idx].get(k) for k in ("arrivals", "trans", "returns", "refused", "msgs")}})
    for i in (0, len(scs) // 2, len(scs) - 1):
        if 0 <= i < len(scs) and "crash" not in impl[i]:
            res.samples.append({"scenario": scs[i], "impl": {k: impl[i][k] for k in ("trans", "returns", "arrivals", "docs")}, "model_agrees": (models is None) or diff(models[i], canon_impl(impl[i])) is None})
    return res


def replay_property(ctx, data, oracle):
    res = C.Result()
    sc = data.get("case")
    if not sc:
        return res
    o = run_scenario(sc)
    for sig, what in oracle(sc, o):
        res.violations.append(C.Violation(sig, what, sc))
    return res
