"""Shared plumbing for every ./check Cxx run.

Flow of one check (see DESIGN.md section 1):
  extract (translator, optional)  ->  lake build of the property's theorem module(s)
  ->  audit (#print axioms, forbidden-token grep)  ->  correspondence run (real code vs Lean
  model on the same inputs) + property oracle on what the *implementation* produced
  ->  findings triage  ->  evidence file  ->  exit code.

Exit codes: 0 held / only known findings; 1 violation (a VIOLATION line is printed);
2 the machinery itself failed (time-out, crash) -- never used to signal a violation.
"""
from __future__ import annotations

import fcntl
import hashlib
import json
import os
import random
import re
import subprocess
import sys
import time
import traceback
from dataclasses import dataclass, field
from pathlib import Path
from typing import Any, Callable, Iterable, Optional

VERIF = Path(__file__).resolve().parent.parent
LEAN = VERIF / "lean"
REPO = Path(os.environ.get("VERIF_REPO", "/repo"))
SRC = REPO / "src" / "bluesky"
EVIDENCE = VERIF / "evidence"
REPLAYS = VERIF / "replays"
ALLOWED_AXIOMS = {"propext", "Classical.choice", "Quot.sound"}
FORBIDDEN = re.compile(
    r"\bsorry\b|\badmit\b|^\s*axiom\s|native_decide|bv_decide|implemented_by|\bunsafe\s|maxHeartbeats\s+0\b|\bpartial\s+def\b.*:\s*Prop"
)
TRUSTED_BASE = [
    "Lean 4.33.0 kernel (leanchecker re-check in the thorough tier)",
    "axioms allowed: propext, Classical.choice, Quot.sound (audited with #print axioms on every run)",
    "the extractor / correspondence harness under /verif/harness (reads the right source, canonicalises honestly)",
    "CPython 3.12 semantics where the Lean model transcribes Python by hand",
]


def assert_repo_import():
    """The implementation under test must be /repo's working tree."""
    import bluesky  # noqa

    p = Path(bluesky.__file__).resolve()
    if SRC.resolve() not in p.parents and p.parent != SRC.resolve():
        raise RuntimeError(f"bluesky imported from {p}, expected {SRC}")


# --------------------------------------------------------------------------- Lean side


class BuildResult:
    def __init__(self, ok: bool, log: str, cmd: str):
        self.ok, self.log, self.cmd = ok, log, cmd


def _lock(shared: bool = False):
    """exclusive while Generated files are rewritten and lake builds; shared while oleans are only read
    (audit, leanchecker, drivers), so concurrent checks never see half-built modules"""
    f = open(VERIF / ".buildlock", "a")
    fcntl.flock(f, fcntl.LOCK_SH if shared else fcntl.LOCK_EX)
    return f


def write_if_changed(path: Path, content: str) -> bool:
    path.parent.mkdir(parents=True, exist_ok=True)
    if path.exists() and path.read_text() == content:
        return False
    path.write_text(content)
    return True


def lake_build(targets: list[str], timeout: int = 1500, extract=None) -> BuildResult:
    """`extract` (optional callable) rewrites the Generated files; it runs under the same exclusive lock as the
    build so that no other check builds or reads a half-updated tree"""
    cmd = ["lake", "build"] + targets
    lock = _lock()
    try:
        if extract is not None:
            extract()
        p = subprocess.run(cmd, cwd=LEAN, capture_output=True, text=True, timeout=timeout)
    finally:
        lock.close()
    return BuildResult(p.returncode == 0, (p.stdout + p.stderr)[-6000:], "cd lean && " + " ".join(cmd))


def theorem_names(module: str) -> list[str]:
    """Obligations of a property = every `theorem` declared in its Props module."""
    path = LEAN / (module.replace(".", "/") + ".lean")
    txt = strip_comments(path.read_text())
    ns = []
    names = []
    for line in txt.splitlines():
        m = re.match(r"\s*namespace\s+(\S+)", line)
        if m:
            ns.append(m.group(1))
            continue
        m = re.match(r"\s*end\s+(\S+)\s*$", line)
        if m and ns and ns[-1].split(".")[-1] == m.group(1).split(".")[-1]:
            ns.pop()
            continue
        m = re.match(r"\s*(?:@\[[^\]]*\]\s*)?(?:private\s+|protected\s+)?theorem\s+(\S+)", line)
        if m:
            names.append(".".join(ns + [m.group(1)]))
    return names


def strip_comments(txt: str) -> str:
    txt = re.sub(r"/-.*?-/", "", txt, flags=re.S)
    return "\n".join(l.split("--")[0] for l in txt.splitlines())


def import_closure(modules: list[str]) -> list[Path]:
    """files of the lake project that the given modules import, transitively (the property's own proof
    and model files: the forbidden-token grep is scoped to them, other properties' work in progress is
    not this property's business)"""
    seen, todo = {}, list(modules)
    while todo:
        m = todo.pop()
        if m in seen or not m.startswith("BlueskyVerif"):
            continue
        path = LEAN / (m.replace(".", "/") + ".lean")
        if not path.exists():
            continue
        seen[m] = path
        for line in path.read_text().splitlines():
            mm = re.match(r"\s*(?:public\s+)?import\s+(\S+)", line)
            if mm:
                todo.append(mm.group(1))
    return sorted(seen.values())


def audit(prop_id: str, modules: list[str]) -> dict:
    """#print axioms on every theorem of the Props modules; forbidden-token grep over lean/."""
    thms = [t for m in modules for t in theorem_names(m)]
    src = "".join(f"import {m}\n" for m in modules) + "".join(f"#print axioms {t}\n" for t in thms)
    f = LEAN / ".audit" / f"{prop_id}.lean"
    write_if_changed(f, src)
    lk = _lock(shared=True)
    try:
        p = subprocess.run(["lake", "env", "lean", str(f)], cwd=LEAN, capture_output=True, text=True, timeout=900)
    finally:
        lk.close()
    out = p.stdout + p.stderr
    res = {}
    flat = re.sub(r"\s+", " ", out)
    for t in thms:
        m = re.search(r"'" + re.escape(t) + r"' depends on axioms: \[([^\]]*)\]", flat)
        if m:
            axs = {a.strip() for a in m.group(1).split(",") if a.strip()}
            res[t] = {"axioms": sorted(axs), "ok": axs <= ALLOWED_AXIOMS}
        elif re.search(r"'" + re.escape(t) + r"' does not depend on any axioms", flat):
            res[t] = {"axioms": [], "ok": True}
        else:
            res[t] = {"axioms": None, "ok": False}
    bad_tokens = []
    for path in import_closure(modules):
        for i, line in enumerate(strip_comments(path.read_text()).splitlines(), 1):
            if FORBIDDEN.search(line):
                bad_tokens.append(f"{path.relative_to(LEAN)}:{i}: {line.strip()[:100]}")
    return {
        "theorems": res,
        "ok": p.returncode == 0 and bool(thms) and all(v["ok"] for v in res.values()) and not bad_tokens,
        "forbidden": bad_tokens,
        "log": out[-3000:] if p.returncode != 0 else "",
        "cmd": f"cd lean && lake env lean .audit/{prop_id}.lean",
    }


def leanchecker(modules: list[str]) -> BuildResult:
    cmd = ["lake", "env", "leanchecker"] + modules
    lk = _lock(shared=True)
    try:
        p = subprocess.run(cmd, cwd=LEAN, capture_output=True, text=True, timeout=3000)
    finally:
        lk.close()
    return BuildResult(p.returncode == 0, (p.stdout + p.stderr)[-3000:], "cd lean && " + " ".join(cmd))


def lean_batch(driver: str, lines: list[str], timeout: int = 1500) -> list[str]:
    """Run `lake env lean --run <driver>` on the request lines; one reply line per request."""
    if not lines:
        return []
    inp = "\n".join(lines) + "\n"
    lk = _lock(shared=True)
    try:
        p = subprocess.run(
            ["lake", "env", "lean", "--run", driver], cwd=LEAN, input=inp, capture_output=True, text=True, timeout=timeout
        )
    finally:
        lk.close()
    if p.returncode != 0:
        raise DriverError(f"driver {driver} failed (rc={p.returncode}): {(p.stdout + p.stderr)[-3000:]}")
    out = p.stdout.split("\n")
    if out and out[-1] == "":
        out.pop()
    if len(out) != len(lines):
        raise DriverError(f"driver {driver}: {len(lines)} requests but {len(out)} replies; tail: {out[-3:]}")
    return out


class DriverError(RuntimeError):
    pass


# --------------------------------------------------------------------------- results


@dataclass
class Violation:
    sig: str  # signature used to match known findings (names the failing input class precisely)
    what: str  # one line: what fails
    case: Any  # the concrete input / history (JSON-able) -> replay file


@dataclass
class Result:
    evaluations: int = 0
    nontrivial: set = field(default_factory=set)  # hashes of distinct non-trivial cases
    samples: list = field(default_factory=list)
    rule: str = ""
    disagreements: list = field(default_factory=list)  # model vs implementation differ (case, model, impl)
    violations: list = field(default_factory=list)  # oracle false on the implementation
    distribution: dict = field(default_factory=dict)
    facts: dict = field(default_factory=dict)  # extracted facts + source locations
    assumptions: list = field(default_factory=list)
    exhaustive: bool = False
    notes: list = field(default_factory=list)

    def count(self, key: str, n: int = 1):
        self.distribution[key] = self.distribution.get(key, 0) + n

    def seen(self, case: Any, nontrivial: bool):
        self.evaluations += 1
        if nontrivial:
            self.nontrivial.add(hashlib.sha1(json.dumps(case, sort_keys=True, default=str).encode()).hexdigest())

    def merge(self, other: "Result"):
        self.evaluations += other.evaluations
        self.nontrivial |= other.nontrivial
        self.samples += other.samples
        self.disagreements += other.disagreements
        self.violations += other.violations
        for k, v in other.distribution.items():
            self.count(k, v)
        self.facts.update(other.facts)
        self.assumptions += [a for a in other.assumptions if a not in self.assumptions]
        self.notes += other.notes
        if other.rule and other.rule not in self.rule:
            self.rule = (self.rule + " | " + other.rule) if self.rule else other.rule


@dataclass
class Ctx:
    prop: str
    tier: str
    seed: int
    rng: random.Random
    deep: bool = False  # deepened search after a broken proof / correspondence

    def budget(self, quick: int, thorough: int) -> int:
        n = thorough if (self.tier == "thorough" or self.deep) else quick
        scale = float(os.environ.get("VERIF_SCALE", "1"))
        return max(1, int(n * scale))


# --------------------------------------------------------------------------- findings


def load_findings(prop: str) -> list[dict]:
    path = VERIF / "known_findings.json"
    if not path.exists():
        return []
    data = json.loads(path.read_text())
    return [f for f in data.get("findings", []) if f.get("property") == prop]


def write_replay(prop: str, name: str, payload: dict) -> Path:
    REPLAYS.mkdir(exist_ok=True)
    path = REPLAYS / f"{prop}_{name}.json"
    path.write_text(json.dumps(payload, indent=1, sort_keys=True, default=str))
    return path


def write_evidence(prop: str, tier: str, seed: int, coverage: dict, assumptions: list, wall: float, violations: int):
    EVIDENCE.mkdir(exist_ok=True)
    ev = {
        "property_id": prop,
        "tier": tier,
        "seed": seed,
        "level": "proof",
        "coverage": coverage,
        "assumptions": assumptions,
        "wall_s": round(wall, 2),
        "violations": violations,
    }
    (EVIDENCE / f"{prop}.json").write_text(json.dumps(ev, indent=1, sort_keys=True, default=str))


def jsonable(x):
    try:
        json.dumps(x)
        return x
    except TypeError:
        return json.loads(json.dumps(x, default=str))
