"""Helpers shared by C04 / C09 / C10 (checkpoint / replay family of the engine properties).

* `index_plan(sc)`      : static message id -> statement (+ owner: main plan or pre/post plan of a request)
* `events(o)`           : the logs of one observation interleaved by the global clock `ticks`
* `ReplayTracker`       : recomputes, from the executed message sequence and by the DOCUMENTED rule, what
                          the message cache must be at every interruption, and checks every replay window
* `gen_replay_scenario` : property-targeted scenario generator (checkpoint spacing, clear_checkpoint,
                          rewindable regions, stage/unstage, monitors, run boundaries, pause messages,
                          pauses / suspensions swept over EVERY arrival index, repeated interruptions, noreplay)
"""
from __future__ import annotations

import copy

import engine_common as E
import engine_extract
from engine_common import M, seq

# the documented rule (docs/msg.rst, RunEngine docstrings): commands that are never replayed ...
DOC_UNCACHEABLE = ["pause", "subscribe", "unsubscribe", "stage", "unstage", "monitor", "unmonitor", "open_run", "close_run", "install_suspender", "remove_suspender", "_start_suspender"]
# ... and commands that act as (implicit) checkpoints; toggling `rewindable` is one too
DOC_RESETS = ["checkpoint", "stage", "unstage", "monitor", "unmonitor", "subscribe", "unsubscribe", "close_run"]
# exceptions the engine throws into a plan that do NOT tell whether the pending command succeeded
INJECTED = {"FailedPause", "RequestAbort", "RequestStop", "PlanHalt", "GeneratorExit", "FailedStatus", "CancelledError", "RunEngineInterrupted", "WaitForTimeoutError"}

_FACTS = {}


def facts():
    if "f" not in _FACTS:
        _FACTS["f"] = engine_extract.extract()
    return _FACTS["f"]


def uncacheable():
    return set(DOC_UNCACHEABLE) | set(facts()["uncacheable"])


def resets():
    return set(DOC_RESETS) | set(facts()["resets_checkpoint"])


# ----------------------------------------------------------------------------- scenario indexing
def index_plan(sc):
    """mid -> (statement, owner) ; owner = 'main' | ('pre'|'post', arrival index, position in that arrival)"""
    idx = {}
    has_try_in_helper = [False]

    def walk(st, owner):
        if st is None:
            return
        if st["k"] == "msg":
            if "id" in st:
                idx[st["id"]] = (st, owner)
        elif st["k"] == "seq":
            for s in st["body"]:
                walk(s, owner)
        elif st["k"] == "try":
            if owner != "main":
                has_try_in_helper[0] = True
            walk(st["body"], owner)
            walk(st.get("handler"), owner)
            walk(st.get("fin"), owner)

    walk(sc["plan"], "main")
    for k in sorted(sc.get("script", {}), key=int):
        for j, a in enumerate(sc["script"][k]):
            if a["a"] == "suspend":
                walk(a.get("pre"), ("pre", int(k), j))
                walk(a.get("post"), ("post", int(k), j))
    return idx, has_try_in_helper[0]


def events(o, keys=("msgs", "trans", "ledger", "yields", "returns", "arrivals")):
    """[(tick, key, index, entry)] in global clock order"""
    ev = []
    for k in keys:
        for i, (t, e) in enumerate(zip(o["ticks"][k], o[k])):
            ev.append((t, k, i, e))
    ev.sort(key=lambda x: x[0])
    return ev


def rewindable_arg(st):
    """value carried by a plan's `rewindable` message: True/False, None = query, 'bad' = malformed"""
    args = st.get("args", [])
    if len(args) != 1:
        return "bad"
    return args[0]


# ----------------------------------------------------------------------------- the documented cache rule
class Stop(Exception):
    """the observation does not determine the documented cache from here on (checking stops, soundly)"""


class ReplayTracker:
    """Walks the observation in clock order.

    cache      : list of (mid, cmd) or None       -- what the documented rule says is replayable now
    frames     : expectation stack that mirrors the engine's plan stack above the user's plan:
                 {'kind': 'replay', 'exp': [...], 'pos': n}  a rewind plan: exactly these, in this order
                 {'kind': 'helper', 'opened': bool, 'was': bool, 'E': [...]}  a suspension helper: new
                 messages (pre / post plan) until its closing `rewindable`, then the replay of E
    """

    def __init__(self, sc, o):
        self.sc, self.o = sc, o
        self.idx, self.skip = index_plan(sc)
        self.unc, self.rs = uncacheable(), resets()
        self.cache = []
        self.rew = True
        self.frames = []
        self.seen = {}            # mid -> index in msgs of its latest execution
        self.hist = []            # per executed message: dict(i, mid, cmd, rew, reset_by)
        self.reset_log = []       # (msg index, what)
        self.pending_susp = None  # helper frame whose rewind has not been taken yet (_start_suspender runs hooks first)
        self.pause_calls = {}
        self.bad = []
        self.bad_at = None        # index in msgs of the message at which the violation was detected
        self.windows = []         # (kind, expected length) of every replay window that was opened
        self.cleared = False      # a clear_checkpoint was executed in this call
        self.stopped = None
        self.ytick = {}
        for t, y in zip(o["ticks"]["yields"], o["yields"]):
            if y[0] is not None and y[0] >= 0:
                self.ytick.setdefault(y[0], []).append((t, y[1], y[2]))

    # -- helpers
    def reset(self, i, what):
        if self.cache is not None:
            self.cache = []
        self.reset_log.append((i, what))

    def outcome(self, mid, tick):
        """True: the command succeeded; False: it raised; None: the observation does not tell"""
        for t, kind, val in self.ytick.get(mid, []):
            if t > tick:
                if kind == "send":
                    return True
                if kind == "throw":
                    return None if val in INJECTED else False
        return None

    def top(self):
        while self.frames and self.frames[-1]["kind"] == "replay" and self.frames[-1]["pos"] >= len(self.frames[-1]["exp"]):
            self.frames.pop()
        return self.frames[-1] if self.frames else None

    def finalize_susp(self):
        f = self.pending_susp
        if f is not None:
            self.pending_susp = None
            f["E"] = list(self.cache or [])
            f["was"] = self.rew
            self.windows.append(("suspend", len(f["E"])))
            if self.cache is not None:
                self.cache = []

    def classify_extra(self, i, mid, cmd):
        """a message was re-executed that the documented rule does not allow to be replayed here"""
        j = self.seen.get(mid)
        if j is not None:
            crossed = [w for (k, w) in self.reset_log if k >= j]
            h = self.hist[j]
            if cmd in self.unc:
                return f"replay-extra-message:{cmd}", f"non-replayable command {cmd!r} (msg #{mid}) was executed again at position {i}"
            if not h["rew"]:
                return f"replayed-non-rewindable:{cmd}", f"{cmd!r} (msg #{mid}) was first executed while the plan was marked non-rewindable and is executed again at position {i}"
            if crossed:
                return f"replayed-across-implicit-checkpoint:{crossed[0]}", f"{cmd!r} (msg #{mid}), executed before the (implicit) checkpoint {crossed[0]!r}, is executed again at position {i}"
        return f"replay-extra-message:{cmd}", f"{cmd!r} (msg #{mid}) is executed again at position {i} although it is not part of the expected replay"

    # -- event handlers
    def on_msg(self, i, tick, e):
        cmd, obj, run, mid = e
        self.finalize_susp()
        self.hist.append({"i": i, "mid": mid, "cmd": cmd, "rew": self.rew})   # hist index == index in msgs
        top = self.top()
        if mid is None:
            # engine-made message
            if cmd == "_start_suspender":
                f = {"kind": "helper", "opened": False, "was": self.rew, "E": []}
                self.frames.append(f)
                self.pending_susp = f
            elif cmd == "rewindable":
                if top is None or top["kind"] != "helper":
                    raise Stop("engine rewindable without a helper frame")
                if not top["opened"]:
                    top["opened"] = True
                    self.set_rewindable(i, False)
                else:
                    self.frames.pop()
                    self.set_rewindable(i, top["was"])
                    self.frames.append({"kind": "replay", "exp": top["E"], "pos": 0, "src": "suspension release"})
            return
        # a message of the user's plan (or of a pre / post plan)
        if top is not None and top["kind"] == "replay":
            exp_mid, exp_cmd = top["exp"][top["pos"]]
            if mid == exp_mid:
                top["pos"] += 1
            else:
                rest = [m for m, _ in top["exp"][top["pos"]:]]
                actual = [m[3] for m in self.o["msgs"][i:i + len(rest)]]
                if sorted(map(str, rest)) == sorted(map(str, actual)):
                    self.bad.append(("replay-out-of-order", f"replay after {top.get('src')} executes msgs {actual} but the documented order is {rest}"))
                elif mid in self.seen and mid not in rest:
                    self.bad.append(self.classify_extra(i, mid, cmd))
                else:
                    self.bad.append((f"replay-missing-message:{exp_cmd}", f"after {top.get('src')} the engine must re-execute {exp_cmd!r} (msg #{exp_mid}) next (remaining replay {rest}) but executes {cmd!r} (msg #{mid}) at position {i}"))
                self.bad_at = i
                raise Stop("violation")
        else:
            if mid in self.seen:
                self.bad.append(self.classify_extra(i, mid, cmd))
                self.bad_at = i
                raise Stop("violation")
        # the documented cache rule
        replayed = mid in self.seen
        self.seen[mid] = i
        if self.cache is not None and self.rew and cmd not in self.unc:
            self.cache.append((mid, cmd))
        if cmd == "clear_checkpoint":
            self.cache = None
            self.cleared = True
        elif cmd == "rewindable":
            st = self.idx.get(mid, (None, None))[0]
            v = rewindable_arg(st) if st else "bad"
            if v == "bad":
                raise Stop("malformed rewindable")
            if v is not None:
                self.set_rewindable(i, bool(v))
        elif cmd in self.rs:
            ok = None if replayed else self.outcome(mid, tick)
            if ok is None:
                raise Stop(f"outcome of {cmd} unknown")
            if ok:
                self.reset(i, cmd)

    def set_rewindable(self, hi, v):
        if self.cache is not None and v != self.rew:
            self.reset(hi, "rewindable")
        self.rew = v

    def on_trans(self, i, tick, e):
        self.finalize_susp()
        a, b = e
        if a == "paused" and b == "running":
            if self.cache is None:
                raise Stop("resumed without a checkpoint")
            E_ = list(self.cache)
            self.cache = []
            self.windows.append(("resume", len(E_)))
            self.frames.append({"kind": "replay", "exp": E_, "pos": 0, "src": "resume"})

    def on_ledger(self, i, tick, e):
        dev, op = e[0], e[1]
        if op == "pause":
            k = self.pause_calls.get(dev, 0)
            self.pause_calls[dev] = k + 1
            modes = self.sc.get("devices", {}).get(dev, {}).get("modes", {}).get("pause", [])
            mode = modes[k] if k < len(modes) else "done"
            if mode == "noreplay":
                self.reset(len(self.hist) - 1, "NoReplayAllowed")

    def on_yield(self, i, tick, e):
        if e[1] == "throw":
            # an exception travels down the plan stack: every rewind plan / helper above the user's plan is dead
            self.frames = []
            self.pending_susp = None

    def run(self):
        if self.skip:
            return self
        try:
            for tick, key, i, e in events(self.o, ("msgs", "trans", "ledger", "yields")):
                getattr(self, {"msgs": "on_msg", "trans": "on_trans", "ledger": "on_ledger", "yields": "on_yield"}[key])(i, tick, e)
            top = self.top()
            if self.o.get("plan_finished") and top is not None and top["kind"] == "replay":
                exp_mid, exp_cmd = top["exp"][top["pos"]]
                self.bad.append((f"replay-missing-message:{exp_cmd}", f"the plan finished although {exp_cmd!r} (msg #{exp_mid}) still had to be re-executed"))
        except Stop as s:
            self.stopped = str(s)
        return self


# ----------------------------------------------------------------------------- targeted generator
def replay_devices(rng):
    devs = {
        "m1": {"kind": "motor", "modes": {}, "pausable": rng.random() < 0.5},
        "m2": {"kind": "motor", "modes": {}},
        "d1": {"kind": "det", "modes": {}, "offset": 1},
        "d2": {"kind": "det", "modes": {}, "offset": 2},
        "s1": {"kind": "sig"},
    }
    if devs["m1"]["pausable"] and rng.random() < 0.75:
        devs["m1"]["modes"]["pause"] = [rng.choice(["done", "noreplay", "noreplay"]) for _ in range(rng.choice([1, 2, 3]))]
    if rng.random() < 0.15:
        devs["m1"]["modes"]["set"] = [rng.choice(["done", "pending"]) for _ in range(3)]
    if rng.random() < 0.08:
        devs["d1"]["modes"]["read"] = [rng.choice(["done", "raise"]) for _ in range(3)]
    return devs


def replay_plan(rng, clear_p=0.12, fin_p=0.25):
    """runs made of points; checkpoints at varying spacing; every feature that touches the cache"""
    ck_p = rng.choice([0.3, 0.6, 0.9, 1.0])

    def point(run=None):
        b = []
        if rng.random() < ck_p:
            b.append(M("checkpoint"))
        for m in ("m1", "m2"):
            if rng.random() < 0.45:
                b.append(M("set", m, rng.choice([0, 1, 2, 3]), group="g"))
        if rng.random() < 0.6:
            b.append(M("wait", None, group="g"))
        if rng.random() < 0.2:
            b.append(M("sleep", None, rng.choice([0, 1])))
        if rng.random() < 0.8:
            b.append(M("create", None, name="primary", run=run))
            for d in ("d1", "d2"):
                if rng.random() < 0.6:
                    b.append(M("read", d, run=run))
            b.append(M("save", run=run) if rng.random() < 0.92 else M("drop", run=run))
        else:
            b.append(M("null"))
        return b

    def extras():
        r = rng.random()
        if r < 0.10:
            return [M("pause", None, defer=rng.random() < 0.5)]
        if r < 0.10 + clear_p:
            return [M("clear_checkpoint")]
        if r < 0.34:
            # a non-rewindable region
            inner = [M("null")] + (point() if rng.random() < 0.5 else []) + ([M("checkpoint")] if rng.random() < 0.3 else [])
            if rng.random() < clear_p:
                # a non-resumable section INSIDE a non-rewindable region (both switches of `resumable` at once)
                inner = [M("clear_checkpoint"), M("null")] + inner + [M("null")]
            return [M("rewindable", None, False)] + inner + ([M("rewindable", None, True)] if rng.random() < 0.85 else [])
        if r < 0.40:
            return [M("rewindable", None, rng.random() < 0.7)]
        if r < 0.48:
            return [M("null"), M("null")]
        if r < 0.54:
            return [M("checkpoint")]
        if r < 0.60:
            d = rng.choice(["d1", "m2"])
            return [M("stage", d), M("null"), M("unstage", d)]
        return []

    def run_block(key=None):
        b = [M("open_run", run=key)]
        mon = rng.random() < 0.3
        if mon:
            b += [M("null"), M("monitor", "s1", run=key, name="s1_monitor")]
        for _ in range(rng.choice([1, 2, 2, 3])):
            b += point(key)
            b += extras()
        if mon and rng.random() < 0.8:
            b += [M("null"), M("unmonitor", "s1", run=key)]
        if rng.random() < 0.95:
            b.append(M("close_run", run=key))
        return b

    body = []
    staged = [d for d in ("m1", "d1", "d2") if rng.random() < 0.4]
    for d in staged:
        body.append(M("stage", d))
        if rng.random() < 0.3:
            body.append(M("null"))
    nruns = rng.choice([1, 1, 2, 2, 3])
    for r_ in range(nruns):
        r = rng.random()
        if r < 0.12:
            a, b = run_block("a"), run_block("b")
            merged = []
            while a or b:
                src = a if (a and (not b or rng.random() < 0.5)) else b
                merged.append(src.pop(0))
            body += merged
        else:
            body += run_block()
        # work between / after runs: what is cached here must not reach back into the closed run
        if rng.random() < 0.6:
            body += [M("null") for _ in range(rng.choice([1, 2]))]
        if rng.random() < 0.2:
            body += [M("sleep", None, 1)]
        body += extras() if rng.random() < 0.3 else []
    unst = [M("unstage", d) for d in reversed(staged)]
    r = rng.random()
    if r < fin_p and (unst or fin_p > 0.25):
        fin = unst + ([M("null")] if (not unst or rng.random() < 0.3) else [])
        handler = seq(M("null")) if rng.random() < 0.15 else None
        return {"k": "try", "body": seq(*body), "handler": handler, "fin": seq(*fin)}, {}
    if r < max(0.5, fin_p + 0.1):
        # an implicit-checkpoint command that FAILS inside try/except: the plan survives and goes on; a failed
        # command is not a checkpoint, and a non-replayable command must not be replayed even then
        kind = rng.choice(["stage", "unstage", "close_run", "unmonitor"])
        need = {"_early": True}
        if kind == "stage":
            x, need = M("stage", "d2"), {"d2": {"stage": ["raise"]}, "_early": True}
        elif kind == "unstage":
            x, need = M("unstage", "d2"), {"d2": {"unstage": ["raise"]}, "_early": True}
        elif kind == "close_run":
            x = M("close_run")
        else:
            x = M("unmonitor", "s1")
        pre = [M("null") for _ in range(rng.choice([0, 1, 2]))]
        post = [M("null") for _ in range(rng.choice([0, 1, 2]))]
        after = [M("null") for _ in range(rng.choice([1, 2, 3]))]
        return seq({"k": "try", "body": seq(*(pre + [x] + post)), "handler": seq(M("null")), "fin": None}, *(after + body + unst)), need
    return seq(*(body + unst)), {}


def small_plan(rng):
    k = rng.choice([0, 1, 2, 3])
    if k == 0:
        return None
    cmds = [rng.choice([M("null"), M("null"), M("checkpoint"), M("sleep", None, 0), M("set", "m2", 7, group="sp")]) for _ in range(k)]
    return seq(*cmds)


def interruption(rng, at, fut, script, kinds=("pause", "suspend", "defer")):
    kind = rng.choice(kinds)
    if kind == "pause":
        script.setdefault(str(at), []).append({"a": "pause", "defer": False})
    elif kind == "defer":
        script.setdefault(str(at), []).append({"a": "pause", "defer": True})
    else:
        script.setdefault(str(at), []).append({"a": "suspend", "fut": fut, "pre": small_plan(rng), "post": small_plan(rng), "just": rng.choice([None, "beam"])})
        if rng.random() < 0.7:
            script.setdefault(str(at + rng.randrange(1, 5)), []).append({"a": "release", "fut": fut})
    return kind


class ReplayGen:
    """Alternates (a) sweeps: one plan, one interruption (pause / suspension / deferred pause) at EVERY arrival
    index -- one scenario per index -- and (b) single scenarios with several interruptions."""

    def __init__(self, clear_p=0.12, kinds=("pause", "suspend", "defer"), sweep_kinds=("pause", "suspend"), sweep_cap=10, fin_p=0.25):
        self.queue = []
        self.clear_p, self.kinds, self.sweep_kinds, self.sweep_cap, self.fin_p = clear_p, kinds, sweep_kinds, sweep_cap, fin_p
        self.early = False
        self.after_cmd = None     # bias the interruptions to arrivals after the first execution of this command
        self.after_idx = None

    def base(self, rng):
        plan, need = replay_plan(rng, self.clear_p, self.fin_p)
        devs = replay_devices(rng)
        self.early = bool(need.pop("_early", False))
        for d, modes in need.items():
            devs[d]["modes"].update(modes)
        sc = {"record_interruptions": rng.random() < 0.4, "devices": devs, "plan": plan, "script": {}, "decisions": [rng.choice(["resume"] * 8 + ["abort", "stop", "halt"]) for _ in range(7)] + ["halt"], "max_arrivals": 300}
        o = E.run_scenario(E.number(copy.deepcopy(sc)))
        self.after_idx = None
        if self.after_cmd:
            tk = next((t for t, m in zip(o["ticks"]["msgs"], o["msgs"]) if m[0] == self.after_cmd), None)
            if tk is not None:
                self.after_idx = sum(1 for t in o["ticks"]["arrivals"] if t < tk)
        return sc, len(o["arrivals"])

    def __call__(self, rng):
        if self.queue:
            return self.queue.pop()
        sc, n = self.base(rng)
        if rng.random() < 0.5:
            kind = rng.choice(self.sweep_kinds)
            idxs = list(range(n))
            if n > self.sweep_cap:
                # a window of consecutive arrival indices (plus a few scattered ones)
                a0 = 0 if self.early else rng.randrange(0, n - self.sweep_cap + 1)
                if self.after_idx is not None and rng.random() < 0.85:
                    a0 = max(0, min(self.after_idx - 1, n - self.sweep_cap))
                idxs = sorted(set(range(a0, a0 + self.sweep_cap - 2)) | set(rng.sample(idxs, 2)))
            out = []
            for at in idxs:
                s2 = copy.deepcopy(sc)
                s2["decisions"] = ["resume"] * 7 + ["halt"]   # the last one bounds the harness loop if resume() itself fails
                interruption(rng, at, 0, s2["script"], (kind,))
                out.append(E.number(s2))
            self.queue = out[::-1]
            return self.queue.pop()
        k = rng.choice([1, 2, 2, 3, 4])
        for f in range(k):
            at = rng.randrange(0, min(n, 9)) if (self.early and f == 0) else rng.randrange(0, n + 3)
            if self.after_idx is not None and f == 0 and self.after_idx < n and rng.random() < 0.8:
                at = rng.randrange(self.after_idx, n)
            interruption(rng, at, f, sc["script"], self.kinds)
        if rng.random() < 0.15:
            sc["script"].setdefault(str(rng.randrange(0, n + 1)), []).append({"a": rng.choice(["abort", "stop", "halt"])})
        return E.number(sc)
