"""Fake devices shared by the C25 / C26 harnesses (plain objects, no ophyd, no RunEngine)."""
from __future__ import annotations


class _Status:
    done = True
    success = True

    def add_callback(self, cb):
        cb(self)

    def wait(self, timeout=None):
        return None


class FakeMotor:
    """Movable + Readable as far as bluesky.utils.is_movable / plan code are concerned."""

    parent = None
    hints: dict = {}

    def __init__(self, name, position=None):
        self.name = name
        self.position = position

    def __repr__(self):
        return f"FakeMotor({self.name})"

    def set(self, value):
        self.position = value
        return _Status()

    def read(self):
        return {self.name: {"value": self.position, "timestamp": 0.0}}

    def describe(self):
        return {self.name: {"source": "fake", "dtype": "number", "shape": []}}

    def read_configuration(self):
        return {}

    def describe_configuration(self):
        return {}


class FakeDetector:
    parent = None
    hints: dict = {}

    def __init__(self, name):
        self.name = name

    def __repr__(self):
        return f"FakeDetector({self.name})"

    def trigger(self):
        return _Status()

    def read(self):
        return {self.name: {"value": 1.0, "timestamp": 0.0}}

    def describe(self):
        return {self.name: {"source": "fake", "dtype": "number", "shape": []}}

    def read_configuration(self):
        return {}

    def describe_configuration(self):
        return {}
