"""Regenerate MANIFEST.json from harness/props/*.py (each module carries its own MANIFEST dict)."""
import importlib
import json
import sys
from pathlib import Path

HERE = Path(__file__).resolve().parent
sys.path.insert(0, str(HERE))
VERIF = HERE.parent
BASE = json.load(open("/root/.vp/BASELINE.json"))["cmd"].replace("--junitxml=<file>", "").strip()

props = [json.loads(l) for l in open(VERIF / "properties.jsonl")]
READY = None
if (HERE / "ready.txt").exists():
    READY = set((HERE / "ready.txt").read_text().split())
checks, na = [], []
for p in props:
    pid = p["id"]
    f = HERE / "props" / f"{pid}.py"
    if not f.exists() or (READY is not None and pid not in READY):
        na.append({"property_id": pid, "reason": "check not built yet in this round (planned: see DESIGN.md section 6); nothing is claimed for it"})
        continue
    mod = importlib.import_module(f"props.{pid}")
    m = getattr(mod, "MANIFEST", {})
    if m.get("not_applicable"):
        na.append({"property_id": pid, "reason": m["not_applicable"]})
        continue
    checks.append(
        {
            "property_id": pid,
            "quick_cmd": f"./check {pid} --tier quick",
            "thorough_cmd": f"./check {pid} --tier thorough",
            "evidence_file": f"/verif/evidence/{pid}.json",
            "replay_cmd_template": f"./check {pid} --replay {{path}}",
            "engine": "lean4+correspondence",
            "level_claimed": {
                "category": "proof",
                "text": m.get("text", "Lean 4 theorems about a model of the anchored code, tied to /repo by a translator and/or a correspondence run on every check."),
                "design_ref": m.get("design_ref", f"DESIGN.md section 6, {pid}"),
            },
            "level_note": m.get("note", "Trusted: Lean kernel + axioms propext/Classical.choice/Quot.sound; the extractor / correspondence harness; the hand-written model is a model of the Python (tied by the correspondence run), not the Python itself."),
            "technique": m.get("technique", "Lean 4 machine-checked proof over an executable model + differential correspondence check against the implementation"),
        }
    )
man = {
    "version": 1,
    "setup_cmd": "cd lean && lake build",
    "hooks": {
        "guard": "BLUESKY_VERIF",
        "enable": "no source hooks are needed: the harness observes through public hooks (msg_hook, state_hook, subscribe), a custom event loop passed as RunEngine(loop=...), fake devices and monkeypatches inside the harness process",
        "baseline_off_cmd": BASE,
        "source_commits": [],
        "add_only": True,
    },
    "engines": [
        {"name": "lean4+correspondence", "path": "lean/ + harness/", "serves_properties": [c["property_id"] for c in checks], "kind_free_text": "Lean 4 proofs (lake project lean/, no Mathlib in model files) about executable models; harness/check.py re-extracts facts from /repo, rebuilds, audits axioms, and runs model and implementation on the same inputs"}
    ],
    "checks": checks,
    "not_applicable": na,
    "notes": "Every check: ./check Cxx --tier quick|thorough. Exit 0 held / known findings only; 1 VIOLATION; 2 harness failure. known_findings.json lists recorded and fixed defects.",
}
(VERIF / "MANIFEST.json").write_text(json.dumps(man, indent=1) + "\n")
print(f"{len(checks)} checks, {len(na)} not claimed")
