"""Case generators for the bundler properties (C15, C16, C05, C45).

A case is JSON: {"cfg": {"ri": bool}, "devs": [...], "plan": [items]} where an item is a message
({"cmd": "create", "name": ...}, ...) or an external event carried by a `Msg('null')`
({"cmd": "fire"|"poke"|"advance", ...}); {"cmd": "pause", "during": [events]} pauses the engine,
performs the events while paused and resumes.  Mostly valid sequences plus scripted malformations.
`profile` shifts the weights towards what each property is about.
"""
from __future__ import annotations

import itertools

DEVS = [
    {"name": "a", "keys": ["a1", "a2"], "cfg": [["c", 1]]},
    {"name": "b", "keys": ["b1"], "cfg": [["g", 0]]},
    {"name": "c", "keys": ["a2", "c1"], "cfg": []},  # overlaps with a
    {"name": "d", "keys": ["d1"], "cfg": [["p", 3], ["q", 4]]},
]
BAD = {"name": "e", "keys": ["e1"], "cfg": [], "bad_read": ["e1", "zz"]}
DETS = [
    {"name": "x", "keys": ["x1", "x2"], "isDet": True},
    {"name": "y", "keys": ["y1"], "isDet": True},
    {"name": "z", "keys": ["z1"], "isDet": True},
]
STREAMS = {"primary": ["a", "b"], "baseline": ["d"], "side": ["b"], "solo": ["a"]}


def _bundle(rng, name, objs, p_bad):
    """one create/read.../save block, possibly malformed"""
    out = []
    r = rng.random()
    if rng.random() < 0.5:
        out.append({"cmd": "checkpoint"})
    if r < p_bad * 0.15:
        pass  # missing create
    else:
        out.append({"cmd": "create", "name": name})
        if r < p_bad * 0.3:
            out.append({"cmd": "create", "name": name})  # second create
    objs = list(objs)
    if p_bad * 0.3 <= r < p_bad * 0.5:
        objs.append("c")  # collides with a (or is alone)
    if p_bad * 0.5 <= r < p_bad * 0.6:
        objs = []  # empty bundle
    if p_bad * 0.6 <= r < p_bad * 0.7 and objs:
        objs.append(objs[0])  # same object twice
    for i, o in enumerate(objs):
        out.append({"cmd": "read", "obj": o})
        if p_bad * 0.7 <= r < p_bad * 0.8 and i == 0:
            out.append({"cmd": rng.choice(["checkpoint", "configure"]), "obj": o, "cfg": [["c", rng.randrange(5, 9)]]})
    end = "drop" if rng.random() < 0.15 else "save"
    out.append({"cmd": end})
    if p_bad * 0.8 <= r < p_bad * 0.9:
        out.append({"cmd": rng.choice(["save", "drop"])})  # without create
    for it in out:
        if it["cmd"] == "checkpoint":
            it.pop("obj", None)
            it.pop("cfg", None)
    return out


def _newcfg(rng, dev):
    keys = [k for k, _ in dev.get("cfg", [])] or ["c"]
    return [[k, rng.randrange(0, 9)] for k in keys]


def gen_case(rng, profile="mix", size=None):
    size = size or rng.choice([3, 5, 8, 12])
    ri = rng.random() < (0.7 if profile in ("C05", "mix") else 0.3)
    devs = [dict(d) for d in DEVS]
    if rng.random() < 0.2:
        devs.append(dict(BAD))
    use_dets = profile in ("C45",) or (profile in ("C05", "mix") and rng.random() < 0.4)
    if use_dets:
        devs += [dict(d) for d in DETS]
    byname = {d["name"]: d for d in devs}
    p_bad = {"C15": 0.5, "C16": 0.15, "C05": 0.15, "C45": 0.1, "mix": 0.3}[profile]
    plan = []
    if rng.random() < 0.93:
        plan.append({"cmd": "open_run"})
    monitored = []
    cleared = False
    declared = []  # (name, objs)
    w = {
        "C15": {"bundle": 8, "configure": 1, "pause": 1, "monitor": 1, "fire": 1, "poke": 0, "det": 0, "reopen": 1, "clear": 0.3},
        "C16": {"bundle": 6, "configure": 4, "pause": 1, "monitor": 2, "fire": 2, "poke": 1, "det": 0, "reopen": 1, "clear": 0.1},
        "C05": {"bundle": 6, "configure": 1, "pause": 4, "monitor": 2, "fire": 4, "poke": 0, "det": 3, "reopen": 1, "clear": 0.4},
        "C45": {"bundle": 1, "configure": 0, "pause": 1.5, "monitor": 0.5, "fire": 0.5, "poke": 0, "det": 10, "reopen": 0.5, "clear": 0.2},
        "mix": {"bundle": 5, "configure": 2, "pause": 2, "monitor": 2, "fire": 2, "poke": 0.5, "det": 3, "reopen": 1, "clear": 0.3},
    }[profile]
    if not use_dets:
        w = dict(w, det=0)
    kinds = list(w)
    for _ in range(size):
        k = rng.choices(kinds, [w[x] for x in kinds])[0]
        if k == "bundle":
            name = rng.choice(list(STREAMS))
            objs = STREAMS[name]
            if rng.random() < 0.08:
                objs = rng.sample(["a", "b", "d"], rng.choice([1, 2]))  # may mismatch the stream's objects
            if "e" in byname and rng.random() < 0.3:
                name, objs = "bad", ["e"]
            plan += _bundle(rng, name, objs, p_bad)
        elif k == "configure":
            o = rng.choice(["a", "b", "d", "c"])
            plan.append({"cmd": "configure", "obj": o, "cfg": _newcfg(rng, byname[o])})
        elif k == "poke":
            o = rng.choice(["a", "b", "d"])
            plan.append({"cmd": "poke", "obj": o, "cfg": _newcfg(rng, byname[o])})
        elif k == "pause":
            if cleared:
                continue
            during = []
            if monitored and rng.random() < 0.5:
                during.append({"cmd": "fire", "obj": rng.choice(monitored), "value": rng.randrange(1, 9)})
            if rng.random() < 0.6:
                plan.append({"cmd": "checkpoint"})
                for _ in range(rng.choice([0, 1, 2])):
                    name = rng.choice(list(STREAMS))
                    plan += [it for it in _bundle(rng, name, STREAMS[name], 0) if it["cmd"] != "checkpoint"]
                if monitored and rng.random() < 0.5:
                    plan.append({"cmd": "fire", "obj": rng.choice(monitored), "value": rng.randrange(1, 9)})
            plan.append({"cmd": "pause", "during": during})
        elif k == "monitor":
            if monitored and rng.random() < 0.4:
                o = rng.choice(monitored + ["a"])
                plan.append({"cmd": "unmonitor", "obj": o})
                if o in monitored:
                    monitored.remove(o)
            else:
                o = rng.choice(["a", "b", "d"])
                name = rng.choice([f"{o}_monitor", f"{o}_monitor", "side", "primary", "solo"])
                plan.append({"cmd": "monitor", "obj": o, "name": name})
                if o not in monitored:
                    monitored.append(o)
        elif k == "fire":
            o = rng.choice(monitored or ["a", "b"])
            plan.append({"cmd": "fire", "obj": o, "value": rng.randrange(1, 9)})
        elif k == "clear":
            plan.append({"cmd": "clear_checkpoint"})
            cleared = True
        elif k == "reopen":
            plan.append({"cmd": "close_run", **({"exit": rng.choice(["success", "abort", "fail", ""]), "reason": "r"} if rng.random() < 0.3 else {})})
            if rng.random() < 0.7:
                plan.append({"cmd": "open_run"})
            monitored = []
            declared = []
        elif k == "det":
            plan += _det_block(rng, declared, p_bad)
    if rng.random() < 0.6:
        plan.append({"cmd": "close_run"})
    if cleared:
        # a pause after clear_checkpoint aborts the engine (outside the guard layer)
        seen = False
        out = []
        for it in plan:
            if it["cmd"] == "clear_checkpoint":
                seen = True
            if seen and it["cmd"] == "pause":
                continue
            out.append(it)
        plan = out
    return {"cfg": {"ri": ri}, "devs": devs, "plan": plan}


def _det_block(rng, declared, p_bad):
    out = []
    r = rng.random()
    if not declared or r < 0.2:
        objs = rng.choice([["x"], ["y"], ["x", "y"], ["y", "z"], ["x", "y", "z"]])
        name = rng.choice(["fly", "fly2", "primary"])
        out.append({"cmd": "declare_stream", "name": name, "objs": objs, "collect": rng.random() < 0.95})
        declared.append((name, objs))
        if rng.random() < 0.4:
            out += [{"cmd": "kickoff", "obj": o} for o in objs]
        return out
    name, objs = rng.choice(declared)
    for o in objs:
        if rng.random() < 0.8:
            out.append({"cmd": "advance", "obj": o, "n": rng.choice([0, 1, 1, 2, 3, 5])})
    item = {"cmd": "collect", "objs": list(objs), "name": name if rng.random() < 0.8 else None, "mis": []}
    if rng.random() < p_bad:
        kind = rng.choice(["width", "resend", "seq", "desc", "unknown", "subset", "undeclared"])
        if kind == "subset" and len(objs) > 1:
            item["objs"] = objs[:1]
        elif kind == "undeclared":
            item["name"] = "nope"
        elif kind in ("width",):
            item["mis"] = [{}] * (len(objs) - 1) + [{"width": rng.choice([1, 2])}]
        elif kind in ("resend", "seq", "desc", "unknown"):
            item["mis"] = [{kind: True}] + [{}] * (len(objs) - 1)
    out.append(item)
    return out


def exhaustive_small():
    """every bundle of <= 2 reads over {a, b, c} ended by save/drop, with one optional intruder
    (checkpoint / configure / second create / pause) at every position -- the small-scope
    enumeration around the C15 rejection rules."""
    devs = [dict(d) for d in DEVS]
    intruders = [None, {"cmd": "checkpoint"}, {"cmd": "configure", "obj": "a", "cfg": [["c", 7]]}, {"cmd": "create", "name": "primary"}, {"cmd": "pause", "during": []}]
    for n in (0, 1, 2):
        for objs in itertools.product(["a", "b", "c"], repeat=n):
            for end in ("save", "drop"):
                base = [{"cmd": "create", "name": "primary"}] + [{"cmd": "read", "obj": o} for o in objs] + [{"cmd": end}]
                for intr in intruders:
                    positions = [None] if intr is None else range(1, len(base))
                    for pos in positions:
                        body = list(base) if pos is None else base[:pos] + [dict(intr)] + base[pos:]
                        for ri in (False, True):
                            yield {"cfg": {"ri": ri}, "devs": devs, "plan": [{"cmd": "open_run"}, {"cmd": "checkpoint"}] + body + [{"cmd": "create", "name": "primary"}, {"cmd": "read", "obj": "b"}, {"cmd": "save"}, {"cmd": "close_run"}]}


def exhaustive_dets(limit=3):
    """two detectors, every pair of index progressions over `limit` collects with steps in {0,1,2}"""
    devs = [dict(d) for d in DETS]
    steps = list(itertools.product([0, 1, 2], repeat=2))
    for seq in itertools.product(steps, repeat=limit):
        plan = [{"cmd": "open_run"}, {"cmd": "declare_stream", "name": "fly", "objs": ["x", "y"], "collect": True}]
        for sx, sy in seq:
            plan += [{"cmd": "advance", "obj": "x", "n": sx}, {"cmd": "advance", "obj": "y", "n": sy}, {"cmd": "collect", "objs": ["x", "y"], "name": "fly", "mis": []}]
        plan.append({"cmd": "close_run"})
        yield {"cfg": {"ri": False}, "devs": devs, "plan": plan}
