"""Translator for the generator wrappers (C20, C21, C22): re-reads src/bluesky/preprocessors.py with
`ast` and regenerates lean/BlueskyVerif/Gen/Generated.lean -- the `except` clause tables the Lean
models of plan_mutator / msg_mutator / finalize_wrapper / contingency_wrapper / finalize_decorator
dispatch on -- and checks the statement shapes the hand transcription relies on.  If a shape is not
recognised it raises (never guesses); the check then reports the obligation as no longer checked.
"""
from __future__ import annotations

import ast

import common as C

CLAUSE = {"StopIteration": ".stopIteration", "GeneratorExit": ".genExit", "Exception": ".exception", "BaseException": ".baseException"}


class Unrecognised(Exception):
    pass


def _func(tree, name):
    for n in ast.walk(tree):
        if isinstance(n, ast.FunctionDef) and n.name == name:
            return n
    raise Unrecognised(f"function {name} not found")


def _clauses(try_node, where):
    out = []
    for h in try_node.handlers:
        if not isinstance(h.type, ast.Name) or h.type.id not in CLAUSE:
            raise Unrecognised(f"{where}: except clause {ast.unparse(h.type) if h.type else 'bare'} not in the modelled set")
        out.append(h.type.id)
    return out


class _Src(list):
    """statement list compared structurally (ast.dump) with expected source snippets"""

    def __eq__(self, expected):
        try:
            exp = [ast.dump(ast.parse(e).body[0]) for e in expected]
        except (SyntaxError, IndexError):
            return False
        return [ast.dump(n) for n in self] == exp

    __hash__ = None


def _src(nodes):
    return _Src(nodes)


def _expect(cond, what):
    if not cond:
        raise Unrecognised(what)


def _tries(node):
    return [n for n in node.body if isinstance(n, ast.Try)]


def extract_mutators():
    """plan_mutator / msg_mutator (C20, C21) -> Gen/Generated.lean"""
    path = C.SRC / "preprocessors.py"
    tree = ast.parse(path.read_text())
    facts = {"source": str(path)}

    # ---------------- plan_mutator
    pm = _func(tree, "plan_mutator")
    loops = [n for n in pm.body if isinstance(n, ast.While)]
    _expect(len(loops) == 1, "plan_mutator: exactly one while loop expected")
    loop = loops[0]
    _expect(isinstance(loop.body[0], ast.If) and ast.unparse(loop.body[0].test) == "exception is not None", "plan_mutator: loop must start with `if exception is not None`")
    branch = loop.body[0]
    t_throw = branch.body[0]
    _expect(isinstance(t_throw, ast.Try) and _src(t_throw.body) == ["msg = plan_stack[-1].throw(exception)"], "plan_mutator: throw branch shape")
    _expect(_src(branch.orelse[:1]) == ["ret = result_stack.pop()"] and isinstance(branch.orelse[1], ast.Try), "plan_mutator: send branch shape")
    t_send = branch.orelse[1]
    _expect(_src(t_send.body) == ["msg = plan_stack[-1].send(ret)"], "plan_mutator: send statement")
    facts["pmThrowClauses"] = _clauses(t_throw, "plan_mutator throw")
    facts["pmSendClauses"] = _clauses(t_send, "plan_mutator send")
    for nm in ("pmThrowClauses", "pmSendClauses"):
        _expect(facts[nm][0] == "StopIteration" and len(facts[nm]) == 2 and facts[nm][1] in ("Exception", "BaseException"), f"plan_mutator: {nm} = {facts[nm]} is not [StopIteration, Exception|BaseException]")
    # the two `except StopIteration` blocks are one definition (pmExhausted) in the model
    a, b = t_throw.handlers[0], t_send.handlers[0]
    _expect([ast.dump(x) for x in a.body] == [ast.dump(x) for x in b.body], "plan_mutator: the two `except StopIteration` blocks differ")
    _expect(_src(t_throw.orelse) == ["exception = None"], "plan_mutator: else of the throw try")
    _expect(
        _src(a.body)
        == [
            "exhausted_gen = plan_stack.pop()",
            "if exhausted_gen is parent_plan:\n    ret_value = e.value",
            "if id(exhausted_gen) in tail_result_cache:\n    ret = tail_result_cache.pop(id(exhausted_gen))",
            "result_stack.append(ret)",
            "if id(exhausted_gen) in tail_cache:\n    gen = tail_cache.pop(id(exhausted_gen))\n    if gen is not None:\n        plan_stack.append(gen)\n        saved_result = result_stack.pop()\n        tail_result_cache[id(gen)] = saved_result\n        result_stack.append(None)",
            "if plan_stack:\n    continue\nelse:\n    return ret_value",
        ],
        "plan_mutator: `except StopIteration` block is not the transcribed one (pmExhausted)",
    )
    _expect(
        _src(t_throw.handlers[1].body)
        == [
            "failed_gen = plan_stack.pop()",
            "tail_cache.pop(id(failed_gen), None)",
            "tail_result_cache.pop(id(failed_gen), None)",
            "if plan_stack:\n    exception = e\n    continue\nelse:\n    raise",
        ],
        "plan_mutator: `except Exception` of the throw branch is not the transcribed one",
    )
    _expect(
        _src(t_send.handlers[1].body)
        == [
            "failed_gen = plan_stack.pop()",
            "if id(failed_gen) in tail_cache:\n    gen = tail_cache.pop(id(failed_gen))\n    if gen is not None:\n        plan_stack.append(gen)",
            "if plan_stack:\n    exception = ex\n    continue\nelse:\n    raise ex",
        ],
        "plan_mutator: `except Exception` of the send branch is not the transcribed one",
    )
    _expect(
        _src(loop.body[1:2])
        == [
            "if id(msg) not in msgs_seen:\n    msgs_seen[id(msg)] = msg\n    new_gen, tail_gen = msg_proc(msg)\n    if tail_gen is not None and new_gen is None:\n        new_gen = single_gen(msg)\n"
            "    if new_gen is not None:\n        plan_stack.append(new_gen)\n        result_stack.append(None)\n        tail_cache[id(new_gen)] = tail_gen\n        continue"
        ],
        "plan_mutator: message-processing block is not the transcribed one (pmProcess)",
    )
    t_yield = loop.body[-1]
    _expect(isinstance(t_yield, ast.Try) and _src(t_yield.body) == ["inner_ret = yield msg"], "plan_mutator: yield statement shape")
    facts["pmYieldClauses"] = _clauses(t_yield, "plan_mutator yield")
    _expect(facts["pmYieldClauses"][0] == "GeneratorExit", "plan_mutator: first clause of the yield try must be GeneratorExit")
    _expect(_src(t_yield.handlers[0].body) == ["for p in plan_stack:\n    p.close()", "raise"], "plan_mutator: GeneratorExit handler shape")
    for h in t_yield.handlers[1:]:
        _expect(_src(h.body) == ["if plan_stack:\n    exception = ex\n    continue\nelse:\n    raise"], "plan_mutator: exception handler of the yield try")
    _expect(_src(t_yield.orelse) == ["result_stack.append(inner_ret)"], "plan_mutator: else of the yield try")

    # ---------------- msg_mutator
    mm = _func(tree, "msg_mutator")
    t0 = _tries(mm)
    _expect(len(t0) == 1 and _src(t0[0].body) == ["msg = plan.send(None)"] and _clauses(t0[0], "msg_mutator start") == ["StopIteration"], "msg_mutator: first try shape")
    w = t0[0].orelse
    _expect(len(w) == 1 and isinstance(w[0], ast.While) and len(w[0].body) == 1 and isinstance(w[0].body[0], ast.Try), "msg_mutator: while/try shape")
    t_y = w[0].body[0]
    _expect(_src(t_y.body) == ["msg = msg_proc(msg)", "if msg is None:\n    _s = None\nelse:\n    _s = yield msg"], "msg_mutator: loop body shape")
    facts["mmYieldClauses"] = _clauses(t_y, "msg_mutator yield")
    _expect(facts["mmYieldClauses"][0] == "GeneratorExit" and _src(t_y.handlers[0].body) == ["plan.close()", "raise"], "msg_mutator: GeneratorExit handler shape")
    for h in t_y.handlers[1:]:
        _expect(_src(h.body) == ["try:\n    msg = plan.throw(_e)\nexcept StopIteration as _e:\n    ret = _e.value\n    break"], "msg_mutator: throw handler shape")
    _expect(_src(t_y.orelse) == ["try:\n    msg = plan.send(_s)\nexcept StopIteration as _e:\n    ret = _e.value\n    break"], "msg_mutator: else shape")

    return facts


def extract_wrappers():
    """finalize_wrapper / contingency_wrapper / finalize_decorator (C22) -> Gen/GeneratedWrappers.lean"""
    path = C.SRC / "preprocessors.py"
    tree = ast.parse(path.read_text())
    facts = {"source": str(path)}
    genexit_body = ["cleanup = False", "raise"]
    fw = _func(tree, "finalize_wrapper")
    (t,) = _tries(fw)
    facts["fwClauses"] = _clauses(t, "finalize_wrapper")
    _expect(_src(t.body) == ["ret = yield from plan"], "finalize_wrapper: try body")
    _expect(facts["fwClauses"][0] == "GeneratorExit" and _src(t.handlers[0].body) == genexit_body, "finalize_wrapper: GeneratorExit handler")
    for h in t.handlers[1:]:
        _expect(_src(h.body) == ["if pause_for_debug:\n    yield from pause()", "raise"], "finalize_wrapper: exception handler")
    _expect(_src(t.finalbody) == ["if cleanup:\n    yield from ensure_generator(final_plan_instance)"] and not t.orelse, "finalize_wrapper: finally")
    _expect(_src(fw.body[-1:]) == ["return ret"], "finalize_wrapper: return")

    cw = _func(tree, "contingency_wrapper")
    (t,) = _tries(cw)
    facts["cwClauses"] = _clauses(t, "contingency_wrapper")
    _expect(_src(t.body) == ["ret = yield from plan"], "contingency_wrapper: try body")
    _expect(facts["cwClauses"][0] == "GeneratorExit" and _src(t.handlers[0].body) == genexit_body, "contingency_wrapper: GeneratorExit handler")
    for h in t.handlers[1:]:
        _expect(
            _src(h.body)
            == [
                "if pause_for_debug:\n    yield from pause()",
                "if except_plan:\n    ret = yield from except_plan(e)\n    if auto_raise:\n        raise\n    else:\n        return ret\nelse:\n    raise",
            ],
            "contingency_wrapper: exception handler",
        )
    _expect(_src(t.orelse) == ["if else_plan:\n    yield from else_plan()"], "contingency_wrapper: else")
    _expect(_src(t.finalbody) == ["if cleanup and final_plan:\n    yield from final_plan()"], "contingency_wrapper: finally")
    _expect(_src(cw.body[-1:]) == ["return ret"], "contingency_wrapper: return")

    fd = _func(_func(_func(tree, "finalize_decorator"), "dec"), "dec_inner")
    (t,) = _tries(fd)
    facts["fdClauses"] = _clauses(t, "finalize_decorator")
    _expect(_src(t.body) == ["ret = yield from plan"], "finalize_decorator: try body")
    _expect(facts["fdClauses"] == ["GeneratorExit"] and _src(t.handlers[0].body) == genexit_body, "finalize_decorator: handlers")
    _expect(_src(t.finalbody) == ["if cleanup:\n    yield from ensure_generator(final_plan_instance)"] and not t.orelse, "finalize_decorator: finally")
    return facts


DOC_MUTATORS = {
    "pmThrowClauses": "plan_mutator: `except` clauses of the try around `plan_stack[-1].throw(exception)`",
    "pmSendClauses": "plan_mutator: `except` clauses of the try around `plan_stack[-1].send(ret)`",
    "pmYieldClauses": "plan_mutator: `except` clauses of the try around `inner_ret = yield msg`",
    "mmYieldClauses": "msg_mutator: `except` clauses of the try around `_s = yield msg`",
}
DOC_WRAPPERS = {
    "fwClauses": "finalize_wrapper: `except` clauses of the try around `ret = yield from plan`",
    "cwClauses": "contingency_wrapper: `except` clauses of the try around `ret = yield from plan`",
    "fdClauses": "finalize_decorator: `except` clauses of the try around `ret = yield from plan`",
}


def render(facts, doc):
    out = [
        "/- GENERATED by harness/genextract.py from src/bluesky/preprocessors.py -- do not edit. -/",
        "import BlueskyVerif.Gen.Basic",
        "",
        "namespace BlueskyVerif.Gen.Generated",
        "open BlueskyVerif.Gen",
        "",
    ]
    for k, d in doc.items():
        out.append(f"/-- {d} -/")
        out.append(f"def {k} : List Clause := [" + ", ".join(CLAUSE[c] for c in facts[k]) + "]")
    out += ["", "end BlueskyVerif.Gen.Generated", ""]
    return "\n".join(out)


def extract_mutators_file(ctx=None):
    facts = extract_mutators()
    C.write_if_changed(C.LEAN / "BlueskyVerif" / "Gen" / "Generated.lean", render(facts, DOC_MUTATORS))
    return facts


def extract_wrappers_file(ctx=None):
    facts = extract_wrappers()
    C.write_if_changed(C.LEAN / "BlueskyVerif" / "Gen" / "GeneratedWrappers.lean", render(facts, DOC_WRAPPERS))
    return facts
