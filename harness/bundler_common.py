"""Shared harness for the bundler properties C15, C16, C05, C45.

* `run_case(case)`   drives the REAL RunEngine (real RunBundler, subclassed only to log its API
                     calls) through a plan of raw Msg objects built from a JSON case and records a
                     canonical observation: per message the documents, device calls, exception;
                     per bundler the API-call history with the documents of each call.
* `model_requests` / `compare`   the same observed message sequence (guard level) and API-call
                     histories (bundler level) as requests for the Lean driver; replies are diffed
                     against the canonicalised real documents.
The translator lives in bundler_extract.py, the oracles in bundler_oracles.py, the case
generators in bundler_gen.py.
"""
from __future__ import annotations

import contextlib
import io
import json
import logging

import common as C
from bundler_fakes import Det, Dev

# ============================================================================================ driving the real engine

_RE_CLASSES = None
_SHARED_RE = None


def _classes():
    """RunEngine subclass whose RunBundler logs every top-level API call (and delegates)."""
    global _RE_CLASSES
    if _RE_CLASSES is not None:
        return _RE_CLASSES
    from bluesky import RunEngine
    from bluesky.bundlers import RunBundler

    class LB(RunBundler):
        H = None  # the Harness of the current case (set per case)

        def _begin(self, op):
            h = type(self).H
            self._depth = getattr(self, "_depth", 0) + 1
            if self._depth == 1:
                return h.begin_op(self, op)
            # nested call (e.g. backstop_collect -> collect): remember where its documents start
            self._marks = getattr(self, "_marks", [])
            self._marks.append(len(h.all_docs))
            return None

        def _end(self, tok, exc):
            self._depth -= 1
            h = type(self).H
            if tok is not None:
                h.end_op(tok, exc)
            else:
                start = self._marks.pop()
                if exc is not None:
                    # documents emitted by a nested call that raised (the caller may swallow the
                    # exception: backstop_collect does) -- the oracles treat them like a failed collect's
                    h.failed.update(id(d) for d in h.all_docs[start:])

    def wrap_async(name, describe):
        orig = getattr(RunBundler, name)

        async def f(self, *a, **k):
            tok = self._begin(describe(self, *a, **k))
            try:
                r = await orig(self, *a, **k)
            except BaseException as e:
                self._end(tok, e)
                raise
            self._end(tok, None)
            return r

        f.__name__ = name
        setattr(LB, name, f)

    def wrap_sync(name, describe):
        orig = getattr(RunBundler, name)

        def f(self, *a, **k):
            tok = self._begin(describe(self, *a, **k))
            try:
                r = orig(self, *a, **k)
            except BaseException as e:
                self._end(tok, e)
                raise
            self._end(tok, None)
            return r

        f.__name__ = name
        setattr(LB, name, f)

    def create_name(msg):
        if "name" in msg.kwargs:
            return msg.kwargs["name"]
        if len(msg.args) == 1:
            return msg.args[0]
        return None

    wrap_async("open_run", lambda self, msg: {"op": "openRun"})
    wrap_async("close_run", lambda self, msg: {"op": "closeRun", "exit": msg.kwargs.get("exit_status"), "reason": msg.kwargs.get("reason")})
    wrap_async("create", lambda self, msg: {"op": "create", "name": create_name(msg)})
    wrap_async("read", lambda self, msg, reading: {"op": "read", "obj": msg.obj.name, "reading": [[k, v["value"]] for k, v in reading.items()]})
    wrap_async("save", lambda self, msg: {"op": "save"})
    wrap_async("drop", lambda self, msg: {"op": "drop"})
    wrap_async("monitor", lambda self, msg: {"op": "monitor", "obj": msg.obj.name, "name": msg.kwargs.get("name")})
    wrap_async("unmonitor", lambda self, msg: {"op": "unmonitor", "obj": msg.obj.name})
    wrap_async("suspend_monitors", lambda self: {"op": "suspendMonitors"})
    wrap_async("restore_monitors", lambda self: {"op": "restoreMonitors"})
    wrap_sync("clear_monitors", lambda self: {"op": "clearMonitors"})
    wrap_sync("record_interruption", lambda self, content: {"op": "recordInterruption", "content": content})
    wrap_sync("rewind", lambda self: {"op": "rewind"})
    wrap_sync("reset_checkpoint_state", lambda self: {"op": "resetCheckpoint"})
    wrap_async("clear_checkpoint", lambda self, msg: {"op": "clearCheckpoint"})
    wrap_async("configure", lambda self, msg: {"op": "configure", "obj": msg.obj.name})
    wrap_async("declare_stream", lambda self, msg: {"op": "declareStream", "name": msg.kwargs.get("name"), "objs": [o.name for o in msg.args], "collect": bool(msg.kwargs.get("collect", False))})
    wrap_async("kickoff", lambda self, msg: {"op": "kickoff", "obj": msg.obj.name})
    wrap_async(
        "collect",
        lambda self, msg: {"op": "collect", "objs": [o.name for o in (msg.obj,) + tuple(msg.args)], "name": msg.kwargs.get("name"), "mis": [dict(getattr(o, "misbehave", None) or {}) for o in (msg.obj,) + tuple(msg.args)]},
    )
    wrap_async("backstop_collect", lambda self: {"op": "backstopCollect"})

    class LRE(RunEngine):
        RunBundler = LB

    _RE_CLASSES = (LRE, LB)
    return _RE_CLASSES


class Harness:
    """One case = one RE(...) call (with resumes).  Collects the guard-level entries and the
    bundler-level histories."""

    def __init__(self, case):
        self.case = case
        self.entries = []  # guard level: {"msg": json, "docs": [...], "calls": [...], "err": None}
        self.cur = None  # current guard-level entry
        self.bundlers = []  # [{"id": id, "ops": [...], "env0": ..., "dets0": ...}]
        self.all_docs = []  # every document emitted, in order
        self.failed = set()  # id() of the documents emitted inside a nested bundler call that raised
        self.cur_op = None
        self.ledger = _Ledger(self)
        self.oplog = _EnvLog(self)
        self.devs = {}
        for d in case["devs"]:
            if d.get("isDet"):
                self.devs[d["name"]] = Det(d["name"], d["keys"], ledger=self.ledger, oplog=self.oplog)
            else:
                self.devs[d["name"]] = Dev(d["name"], d["keys"], dict(map(tuple, d.get("cfg", []))), ledger=self.ledger, bad_read=d.get("bad_read"), oplog=self.oplog)

    # -- guard-level entries
    def new_entry(self, msg):
        for d in self.devs.values():  # a scripted one-shot misbehaviour belongs to one collect message only
            if isinstance(d, Det):
                d.misbehave = None
        self.cur = {"msg": msg, "docs": [], "calls": [], "err": None, "ops": []}
        self.entries.append(self.cur)
        return self.cur

    # -- bundler-level ops
    def begin_op(self, bundler, op):
        if op["op"] == "openRun":
            rec = {"id": id(bundler), "obj": bundler, "ops": [], "open_docs": [], "envCfg": [[n, sorted(d.cfg.items())] for n, d in self.devs.items() if isinstance(d, Dev) or hasattr(d, "cfg")], "dets": [[n, d.index, d.last, d.sent_resources, d.ndatum] for n, d in self.devs.items() if isinstance(d, Det)]}
            self.bundlers.append(rec)
            tok = {"op": op, "docs": rec["open_docs"], "calls": [], "err": None, "open": True}
        else:
            rec = self._rec(bundler)
            tok = {"op": op, "docs": [], "calls": [], "err": None}
            rec["ops"].append(tok)
            if self.cur is not None:
                self.cur["ops"].append(op)
        self.cur_op = tok
        return tok

    def end_op(self, tok, exc):
        tok["err"] = type(exc).__name__ if exc is not None else None
        self.cur_op = None

    def _rec(self, bundler):
        for r in self.bundlers:
            if r["id"] == id(bundler):
                return r
        raise RuntimeError("unknown bundler")

    def env_op(self, op):
        """environment change / closure call logged by a fake: belongs to the live bundler (if any)"""
        tok = {"op": op, "docs": [], "calls": [], "err": None}
        if self.live is not None:
            self.live["ops"].append(tok)
            if self.cur is not None:
                self.cur["ops"].append(op)
        return tok

    @property
    def live(self):
        RE = self.RE
        if RE._run_bundlers:
            b = list(RE._run_bundlers.values())[-1]
            for r in self.bundlers:
                if r["id"] == id(b):
                    return r
        return None

    def on_doc(self, name, doc):
        rec = (name, doc)
        self.all_docs.append(doc)
        if self.cur is not None:
            self.cur["docs"].append(rec)
        if self.cur_op is not None:
            self.cur_op["docs"].append(rec)

    def on_call(self, obj, meth):
        if self.cur is not None:
            self.cur["calls"].append([obj, meth])
        if self.cur_op is not None:
            self.cur_op["calls"].append([obj, meth])

    # -- running
    def run(self):
        from bluesky import Msg
        from bluesky.run_engine import RunEngineInterrupted

        LRE, LB = _classes()
        LB.H = self
        global _SHARED_RE
        if _SHARED_RE is None or _SHARED_RE.state != "idle":
            _SHARED_RE = LRE({}, context_managers=[])  # one engine (one loop thread) serves all cases
        RE = _SHARED_RE
        self.RE = RE
        RE.record_interruptions = bool(self.case.get("cfg", {}).get("ri", False))
        RE._require_stream_declaration = bool(self.case.get("cfg", {}).get("strict"))
        token = RE.subscribe(self.on_doc)
        items = self.case["plan"]
        h = self
        pending_during = []

        def to_msg(it):
            c = it["cmd"]
            D = self.devs
            if c == "open_run":
                return Msg("open_run")
            if c == "close_run":
                kw = {}
                if "exit" in it:
                    kw["exit_status"] = it["exit"]
                if "reason" in it:
                    kw["reason"] = it["reason"]
                return Msg("close_run", **kw)
            if c == "create":
                return Msg("create", name=it["name"]) if it.get("name") is not None else Msg("create")
            if c in ("read", "unmonitor", "kickoff"):
                return Msg(c, D[it["obj"]])
            if c in ("save", "drop", "checkpoint", "clear_checkpoint", "pause"):
                return Msg(c)
            if c == "configure":
                return Msg("configure", D[it["obj"]], dict(map(tuple, it["cfg"])))
            if c == "monitor":
                return Msg("monitor", D[it["obj"]], name=it["name"])
            if c == "declare_stream":
                return Msg("declare_stream", None, *[D[o] for o in it["objs"]], name=it["name"], collect=it.get("collect", False))
            if c == "collect":
                objs = [D[o] for o in it["objs"]]
                kw = {} if it.get("name") is None else {"name": it["name"]}
                m = Msg("collect", *objs, **kw)
                _MIS[id(m)] = it.get("mis", [])
                _KEEP.append(m)
                return m
            if c in ("fire", "poke", "advance", "null"):
                return Msg("null", _ev=it)
            raise ValueError(c)

        def plan():
            for it in items:
                m = to_msg(it)
                try:
                    yield m
                except Exception as e:  # the exception raised by this (or a replayed) message
                    if h.cur is not None and h.cur["err"] is None:
                        h.cur["err"] = type(e).__name__
            h.new_entry({"cmd": "end", "exit": "success", "reason": ""})

        def hook(msg):
            ev = msg.kwargs.get("_ev") if msg.command == "null" else None
            if ev is not None and ev["cmd"] != "null":
                self.do_event(ev)
            e = self.new_entry(None)
            e["msg"] = self.describe_msg(msg)

        RE.msg_hook = hook
        lg = logging.getLogger("bluesky")
        old = lg.level
        lg.setLevel(logging.CRITICAL + 1)
        try:
            with contextlib.redirect_stdout(io.StringIO()):
                try:
                    RE(plan())
                    interrupted = False
                except RunEngineInterrupted:
                    interrupted = True
                guard = 0
                while interrupted and RE.state == "paused" and guard < 50:
                    guard += 1
                    it = self._last_pause_item()
                    for ev in (it or {}).get("during", []):
                        self.do_event(ev)
                    self.new_entry({"cmd": "resume"})
                    try:
                        RE.resume()
                        interrupted = False
                    except RunEngineInterrupted:
                        interrupted = True
                if RE.state != "idle":
                    self.new_entry({"cmd": "end", "exit": "abort", "reason": ""})
                    RE.abort()
        finally:
            lg.setLevel(old)
            LB.H = None
            RE.msg_hook = None
            try:
                RE.unsubscribe(token)
            except Exception:
                _SHARED_RE = None
        return self

    def _last_pause_item(self):
        # the k-th pause message seen corresponds to the k-th pause item that was reached; use a counter
        self._pause_seen = getattr(self, "_pause_seen", 0)
        pauses = [it for it in self.case["plan"] if it["cmd"] == "pause"]
        it = pauses[self._pause_seen] if self._pause_seen < len(pauses) else None
        self._pause_seen += 1
        return it

    def describe_msg(self, msg):
        c = msg.command
        if c == "null":
            return {"cmd": "null"}
        if c == "read":
            d = msg.obj
            return {"cmd": "read", "obj": d.name, "reading": d.peek()}
        if c == "configure":
            return {"cmd": "configure", "obj": msg.obj.name, "cfg": sorted(map(list, msg.args[0].items()))}
        if c == "create":
            return {"cmd": "create", "name": msg.kwargs.get("name")}
        if c == "close_run":
            out = {"cmd": "close_run"}
            if "exit_status" in msg.kwargs:
                out["exit"] = msg.kwargs["exit_status"]
            if "reason" in msg.kwargs:
                out["reason"] = msg.kwargs["reason"]
            return out
        if c in ("monitor",):
            return {"cmd": c, "obj": msg.obj.name, "name": msg.kwargs.get("name")}
        if c in ("unmonitor", "kickoff"):
            return {"cmd": c, "obj": msg.obj.name}
        if c == "declare_stream":
            return {"cmd": c, "name": msg.kwargs.get("name"), "objs": [o.name for o in msg.args], "collect": bool(msg.kwargs.get("collect", False))}
        if c == "collect":
            objs = (msg.obj,) + tuple(msg.args)
            mis = _MIS.get(id(msg), [])
            # script the one-shot misbehaviour right before the message is processed
            for o, m in zip(objs, mis):
                o.misbehave = dict(m) if m else None
            return {"cmd": c, "objs": [o.name for o in objs], "name": msg.kwargs.get("name"), "mis": [dict(m or {}) for m in mis]}
        return {"cmd": c}

    def do_event(self, ev):
        e = self.new_entry(dict(ev))
        d = self.devs[ev["obj"]]
        try:
            if ev["cmd"] == "fire":
                e["msg"] = {"cmd": "fire", "obj": ev["obj"], "reading": [[k, ev["value"]] for k in d.keys]}
                d.fire(ev["value"])
            elif ev["cmd"] == "poke":
                d.poke(dict(map(tuple, ev["cfg"])))
            elif ev["cmd"] == "advance":
                d.advance(ev["n"])
        except Exception as ex:
            e["err"] = type(ex).__name__


_MIS = {}


_KEEP = []


class _Ledger(list):
    def __init__(self, h):
        super().__init__()
        self.h = h

    def append(self, x):
        super().append(x)
        self.h.on_call(x[0], x[1])


class _EnvLog:
    """bundler-level environment ops reported by the fakes (setCfg, advance, monitorUpdate closure calls)"""

    def __init__(self, h):
        self.h = h

    def begin(self, op):
        tok = self.h.env_op(op)
        if op["op"] == "monitorUpdate":
            self.h.cur_op = tok  # documents emitted by the closure belong to this op
        return tok

    def end(self, tok, exc=None):
        if tok is not None:
            tok["err"] = type(exc).__name__ if exc is not None else None
        self.h.cur_op = None


# ============================================================================================ canonical documents


def canon_real(docs, uidmap=None):
    """real (name, doc) pairs -> canonical dicts comparable with the model's documents.
    uids are renamed in order of first appearance, timestamps dropped, hash-ordered things sorted."""
    uidmap = {} if uidmap is None else uidmap
    desc_name = uidmap.setdefault("__desc__", {})

    def u(x):
        if x not in uidmap:
            uidmap[x] = len([k for k in uidmap if not str(k).startswith("__")])
        return uidmap[x]

    out = []
    for name, d in docs:
        if name == "start":
            out.append({"kind": "start", "uid": u(d["uid"]), "run": u(d["uid"])})
        elif name == "descriptor":
            desc_name[d["uid"]] = d["name"]
            out.append(
                {
                    "kind": "descriptor",
                    "uid": u(d["uid"]),
                    "run": u(d["run_start"]),
                    "stream": d["name"],
                    "keys": sorted(d["data_keys"]),
                    "extKeys": sorted(k for k, v in d["data_keys"].items() if v.get("external") == "STREAM:"),
                    "objKeys": sorted([o, list(ks)] for o, ks in d["object_keys"].items()),
                    "config": sorted([o, sorted([k, v] for k, v in c["data"].items()), sorted(c["data_keys"])] for o, c in d["configuration"].items()),
                }
            )
        elif name == "event":
            c = {"kind": "event", "uid": u(d["uid"]), "descriptor": u(d["descriptor"]), "stream": desc_name.get(d["descriptor"]), "seq": d["seq_num"], "keys": sorted(d["data"])}
            if set(d["data"]) == {"interruption"} and isinstance(d["data"]["interruption"], str):
                c["data"] = []
                c["note"] = d["data"]["interruption"]
            else:
                c["data"] = sorted([k, v] for k, v in d["data"].items())
            out.append(c)
        elif name == "stop":
            out.append({"kind": "stop", "uid": u(d["uid"]), "run": u(d["run_start"]), "exit": d["exit_status"], "reason": d["reason"], "numEvents": sorted([k, v] for k, v in d["num_events"].items())})
        elif name == "stream_resource":
            out.append({"kind": "stream_resource", "run": u(d["run_start"]), "sid": d["uid"], "dataKey": d["data_key"]})
        elif name == "stream_datum":
            out.append(
                {
                    "kind": "stream_datum",
                    "descriptor": u(d["descriptor"]),
                    "stream": desc_name.get(d["descriptor"]),
                    "seqRange": [d["seq_nums"]["start"], d["seq_nums"]["stop"]],
                    "idxRange": [d["indices"]["start"], d["indices"]["stop"]],
                    "sid": d["uid"],
                    "resource": d["stream_resource"],
                }
            )
        else:
            out.append({"kind": name})
    return out


def canon_model(docs, uidmap=None):
    """model documents (driver JSON) -> the same canonical form"""
    uidmap = {} if uidmap is None else uidmap

    def u(x):
        if x not in uidmap:
            uidmap[x] = len(uidmap)
        return uidmap[x]

    out = []
    for d in docs:
        k = d["kind"]
        if k == "start":
            out.append({"kind": k, "uid": u(d["uid"]), "run": u(d["run"])})
        elif k == "descriptor":
            out.append(
                {
                    "kind": k,
                    "uid": u(d["uid"]),
                    "run": u(d["run"]),
                    "stream": d["stream"],
                    "keys": sorted(d["keys"]),
                    "extKeys": sorted(d.get("extKeys", [])),
                    "objKeys": sorted([o, list(ks)] for o, ks in d["objKeys"]),
                    "config": sorted([o, sorted(map(list, data)), sorted(dk)] for o, data, dk in d["config"]),
                }
            )
        elif k == "event":
            c = {"kind": k, "uid": u(d["uid"]), "descriptor": u(d["descriptor"]), "stream": d["stream"], "seq": d["seq"], "keys": sorted(d["keys"])}
            if "note" in d:
                c["data"] = []
                c["note"] = d["note"]
            else:
                c["data"] = sorted(map(list, d["data"]))
            out.append(c)
        elif k == "stop":
            out.append({"kind": k, "uid": u(d["uid"]), "run": u(d["run"]), "exit": d["exit"], "reason": d["reason"], "numEvents": sorted(map(list, d["numEvents"]))})
        elif k == "stream_resource":
            out.append({"kind": k, "run": u(d["run"]), "sid": d["sid"], "dataKey": d["dataKey"]})
        elif k == "stream_datum":
            out.append({"kind": k, "descriptor": u(d["descriptor"]), "stream": d["stream"], "seqRange": d["seqRange"], "idxRange": d["idxRange"], "sid": d["sid"], "resource": d["resource"]})
    return out


def _norm_mis(m):
    return {k: (int(v) if k == "width" else bool(v)) for k, v in (m or {}).items() if v}


def _norm_op(op):
    o = {k: v for k, v in op.items() if v is not None}
    if "mis" in o:
        o["mis"] = [_norm_mis(m) for m in o["mis"]]
    return o


def _devs_json(case):
    return [{"name": d["name"], "keys": d["keys"], "configurable": not d.get("isDet", False), "isDet": bool(d.get("isDet", False))} for d in case["devs"]]


def observe(case):
    """run the real engine; -> JSON-able observation"""
    h = Harness(case).run()
    um = {}
    g_entries = []
    for e in h.entries:
        g_entries.append({"msg": _norm_op(e["msg"]), "docs": canon_real(e["docs"], um), "calls": e["calls"], "err": e["err"], "ops": [_norm_op(o) for o in e["ops"]], "srcs": None, "failed": [j for j, (_, d) in enumerate(e["docs"]) if id(d) in h.failed]})
    bundlers = []
    for b in h.bundlers:
        um2 = {}
        ops = [{"op": _norm_op(t["op"]), "docs": None, "calls": t["calls"], "err": t["err"]} for t in b["ops"]]
        open_docs = canon_real(b["open_docs"], um2)
        for o, t in zip(ops, b["ops"]):
            o["docs"] = canon_real(t["docs"], um2)
            o["failed"] = [j for j, (_, d) in enumerate(t["docs"]) if id(d) in h.failed]
        bundlers.append({"envCfg": [[n, [list(kv) for kv in c]] for n, c in b["envCfg"]], "dets": b["dets"], "open": open_docs, "ops": ops})
    return {"entries": g_entries, "bundlers": bundlers}


def model_requests(case, obs):
    """-> (guard-level request, [bundler-level requests])"""
    base = {"cfg": {"ri": bool(case.get("cfg", {}).get("ri", False)), "strict": bool(case.get("cfg", {}).get("strict", False))}, "devs": _devs_json(case)}
    env0 = [[d["name"], d.get("cfg", [])] for d in case["devs"] if not d.get("isDet")]
    g = dict(base, mode="guards", envCfg=env0, msgs=[e["msg"] for e in obs["entries"]])
    bs = [dict(base, mode="bundler", envCfg=b["envCfg"], dets=b["dets"], ops=[o["op"] for o in b["ops"]]) for b in obs["bundlers"]]
    return g, bs


def _sorted_calls(calls):
    return sorted(map(list, calls))


def compare(case, obs, greply, breplies):
    """-> list of disagreement dicts (empty when model and implementation agree)"""
    bad = []
    if "error" in greply:
        return [{"level": "guards", "error": greply["error"]}]
    um = {}
    if len(greply["entries"]) != len(obs["entries"]):
        return [{"level": "guards", "error": "length"}]
    for i, (m, e) in enumerate(zip(greply["entries"], obs["entries"])):
        md = canon_model(m["docs"], um)
        mo = [_norm_op(o) for o in m["ops"]]
        eo = [{k: v for k, v in o.items() if k != "mis"} for o in e["ops"]]
        mo = [{k: v for k, v in o.items() if k != "mis"} for o in mo]
        if md != e["docs"] or m["err"] != e["err"] or _sorted_calls(m["calls"]) != _sorted_calls(e["calls"]) or mo != eo:
            bad.append({"level": "guards", "index": i, "msg": e["msg"], "model": {"docs": md, "err": m["err"], "calls": m["calls"], "ops": mo}, "impl": {"docs": e["docs"], "err": e["err"], "calls": e["calls"], "ops": eo}})
            break
    for bi, (rep, b) in enumerate(zip(breplies, obs["bundlers"])):
        if "error" in rep:
            bad.append({"level": "bundler", "error": rep["error"]})
            continue
        um = {}
        if canon_model(rep["open"], um) != b["open"]:
            bad.append({"level": "bundler", "bundler": bi, "index": -1, "model": canon_model(rep["open"], {}), "impl": b["open"]})
            continue
        for i, (m, o) in enumerate(zip(rep["entries"], b["ops"])):
            md = canon_model(m["docs"], um)
            if md != o["docs"] or m["err"] != o["err"] or _sorted_calls(m["calls"]) != _sorted_calls(o["calls"]):
                bad.append({"level": "bundler", "bundler": bi, "index": i, "op": o["op"], "model": {"docs": md, "err": m["err"], "calls": m["calls"]}, "impl": {"docs": o["docs"], "err": o["err"], "calls": o["calls"]}})
                break
        if not rep.get("admissible", True):
            bad.append({"level": "bundler", "bundler": bi, "error": "the engine issued a bundler history that the model calls inadmissible"})
    return bad
