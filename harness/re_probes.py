"""Implementation-only probes on a plain RunEngine (own event loop, real time, no SimLoop) for message kinds and
wrappers the engine model does not contain: flyer commands, multi-object `locate`, `run_wrapper` around plans that
raise unusual exceptions.  Each probe returns [(signature, text, case)] and is deterministic (no timing races: every
status is completed from the plan itself or before the message returns)."""
from __future__ import annotations

import contextlib
import io
import logging

_LOOP = None


def _loop():
    global _LOOP
    if _LOOP is None:
        import asyncio

        _LOOP = asyncio.new_event_loop()
    return _LOOP


def _engine():
    from bluesky import RunEngine

    logging.getLogger("bluesky").setLevel(logging.CRITICAL)
    RE = RunEngine({}, context_managers=[], loop=_loop())
    docs = []
    RE.subscribe(lambda n, d: docs.append((n, d)))
    return RE, docs


def _run(RE, plan):
    buf = io.StringIO()
    with contextlib.redirect_stdout(buf), contextlib.redirect_stderr(buf):
        try:
            RE(plan)
            return ("return", None)
        except BaseException as e:  # noqa
            return ("raise", e)


class _Status:
    """minimal Status: finished from outside"""

    def __init__(self):
        self.done = False
        self.success = False
        self._cbs = []
        self._exc = None

    def add_callback(self, cb):
        if self.done:
            cb(self)
        else:
            self._cbs.append(cb)

    def exception(self, timeout=None):
        return self._exc

    def finish(self, ok, exc=None):
        self.done, self.success = True, bool(ok)
        self._exc = None if ok else (exc or RuntimeError("device failed"))
        for cb in self._cbs:
            cb(self)
        self._cbs = []


class _Flyer:
    name = "flyer"
    parent = None

    def __init__(self, outcomes):
        self.outcomes = list(outcomes)     # per kickoff / complete call: True = succeeds, False = fails
        self.calls = []

    def _st(self, what):
        st = _Status()
        ok = self.outcomes.pop(0) if self.outcomes else True
        self.calls.append((what, ok))
        if ok:
            st.finish(True)
        else:
            # fails a little later, on the engine's loop, i.e. while the plan is blocked in its `wait` for this group
            _loop().call_later(0.05, st.finish, False)
        return st

    def kickoff(self):
        return self._st("kickoff")

    def complete(self):
        return self._st("complete")

    def describe_collect(self):
        return {}

    def collect(self):
        return iter(())


# ----------------------------------------------------------------------------- C12: errors reach the plan at their message
def reused_message_probe():
    """the SAME Msg object executed twice (a replay after a rewind, or a plan that keeps its messages in a list): the
    status of the second execution belongs to the message's group again, so `wait(group)` raises its failure there"""
    from bluesky.utils import FailedStatus, Msg

    bad = []
    for cmd in ("kickoff", "complete"):
        fly = _Flyer([True, True, True, True])
        seen = {}

        def plan(cmd=cmd, fly=fly, seen=seen):
            yield Msg("open_run")
            if cmd == "complete":
                yield Msg("kickoff", fly, group="k")
                yield Msg("wait", None, group="k")
            m = Msg(cmd, fly, group="g")
            yield m
            yield Msg("wait", None, group="g")
            # second execution of the same object: its status FAILS
            fly.outcomes[:] = [False]
            yield m
            try:
                yield Msg("wait", None, group="g")
                seen["wait2"] = "returned"
            except FailedStatus:
                seen["wait2"] = "FailedStatus"
            yield Msg("null")
            yield Msg("checkpoint")
            yield Msg("null")
            yield Msg("close_run")

        RE, docs = _engine()
        out = _run(RE, plan())
        case = {"probe": "reused-message", "cmd": cmd}
        if seen.get("wait2") != "FailedStatus":
            bad.append((f"failed-status-of-reexecuted-{cmd}-not-delivered-at-its-wait", f"the same Msg({cmd!r}, group='g') object was executed twice, the second status failed: wait(group='g') {seen.get('wait2', 'was never reached')} (the call ended with {out[0]} {type(out[1]).__name__ if out[1] else ''})", case))
    return bad


def locate_probe():
    """`locate` with several objects, one of which raises: the exception is thrown into the plan at that message"""
    from bluesky.utils import Msg

    class Loc:
        parent = None

        def __init__(self, name, fail):
            self.name, self.fail = name, fail

        def set(self, value):
            st = _Status()
            st.finish(True)
            return st

        async def locate(self):
            if self.fail:
                raise ValueError(f"{self.name} cannot be located")
            return {"setpoint": 1.0, "readback": 1.0}

    bad = []
    for order in ((False, True), (True, False), (False, True, False)):
        objs = [Loc(f"o{i}", f) for i, f in enumerate(order)]
        seen = {}

        def plan(objs=objs, seen=seen):
            try:
                r = yield Msg("locate", *objs, squeeze=False)
                seen["locate"] = ("returned", type(r).__name__, [type(x).__name__ for x in r] if isinstance(r, (list, tuple)) else None)
            except ValueError as e:
                seen["locate"] = ("raised", str(e))
            yield Msg("null")

        RE, docs = _engine()
        _run(RE, plan())
        if seen.get("locate", ("?",))[0] != "raised":
            bad.append(("locate-exception-not-thrown-at-the-message", f"locate({', '.join(o.name + (' (raises)' if o.fail else '') for o in objs)}): the plan got {seen.get('locate')} instead of the ValueError at the yield", {"probe": "locate", "order": list(order)}))
    return bad


# ----------------------------------------------------------------------------- C02: run_wrapper and exit status
def run_wrapper_exception_probe():
    """an ORDINARY exception (not a RunEngineControlException) that happens to carry an `exit_status` attribute (the exit
    code of an external command ...) raised inside run_wrapper / run_decorator: the run is closed 'fail' with the exception
    text as reason and RE(...) re-raises the exception itself"""
    from bluesky.preprocessors import run_decorator, run_wrapper
    from bluesky.utils import Msg

    class ProcessError(Exception):
        def __init__(self, text, exit_status):
            super().__init__(text)
            self.exit_status = exit_status

    bad = []
    for status in (2, 127, "abort", "success", None, 0):
        for form in ("wrapper", "decorator"):
            exc = ProcessError(f"command failed with {status!r}", status)

            def body(exc=exc):
                yield Msg("null")
                raise exc

            plan = run_wrapper(body(), md={}) if form == "wrapper" else run_decorator(md={})(body)()
            RE, docs = _engine()
            out = _run(RE, plan)
            stops = [d for n, d in docs if n == "stop"]
            case = {"probe": "run-wrapper-exception", "exit_status": status, "form": form}
            where = f"run_{form} around a plan raising ProcessError(exit_status={status!r})"
            if not (out[0] == "raise" and out[1] is exc):
                bad.append((f"unhandled-exception-not-reraised:attribute-exit_status-{type(status).__name__}", f"{where}: RE(...) ended with {out[0]} {type(out[1]).__name__ if out[1] is not None else ''}: {out[1]}", case))
            if len(stops) != 1:
                bad.append((f"run-with-{len(stops)}-stops:attribute-exit_status-{type(status).__name__}", f"{where}: {len(stops)} RunStop documents", case))
            elif stops[0]["exit_status"] != "fail" or stops[0].get("reason") != str(exc):
                bad.append((f"exit-status-not-fail:attribute-exit_status-{type(status).__name__}", f"{where}: RunStop says exit_status={stops[0]['exit_status']!r}, reason={stops[0].get('reason')!r}; expected 'fail' / {str(exc)!r}", case))
    return bad


# ----------------------------------------------------------------------------- C03 / C04: replayed messages are the messages that were executed
def replayed_group_probe():
    """a grouped set / trigger / kickoff / complete after a checkpoint, then wait(group), then a pause and resume before the
    next checkpoint: the REPLAYED message still belongs to its group, so the replayed wait(group) really waits for the status
    of the re-issued action (statuses complete 0.05 s after the call, on the engine's loop)"""
    from bluesky.utils import Msg

    class Slow:
        parent = None

        def __init__(self, name):
            self.name = name
            self.statuses = []

        def _st(self):
            st = _Status()
            self.statuses.append(st)
            _loop().call_later(0.05, st.finish, True)
            return st

        def set(self, v):
            return self._st()

        def trigger(self):
            return self._st()

        def kickoff(self):
            return self._st()

        def complete(self):
            return self._st()

        def read(self):
            return {self.name: {"value": len(self.statuses), "timestamp": 0.0}}

        def describe(self):
            return {self.name: {"source": "sim", "dtype": "number", "shape": []}}

        def read_configuration(self):
            return {}

        def describe_configuration(self):
            return {}

        def describe_collect(self):
            return {}

        def collect(self):
            return iter(())

        def stop(self, success=True):
            pass

    bad = []
    for cmd in ("set", "trigger", "kickoff", "complete"):
        dev = Slow("dev")
        RE, docs = _engine()
        early = []

        def hook(msg, dev=dev, early=early):
            if msg.command == "null" and msg.kwargs.get("marker"):
                if dev.statuses and not dev.statuses[-1].done:
                    early.append(len(dev.statuses))

        RE.msg_hook = hook

        def plan(cmd=cmd, dev=dev):
            yield Msg("open_run")
            if cmd == "complete":
                yield Msg("kickoff", dev, group="k")
                yield Msg("wait", None, group="k")
            yield Msg("checkpoint")
            args = (1,) if cmd == "set" else ()
            yield Msg(cmd, dev, *args, group="g")
            yield Msg("wait", None, group="g")
            yield Msg("null", marker=True)
            yield Msg("pause")
            yield Msg("null")
            yield Msg("close_run")

        out = _run(RE, plan())
        rounds = 0
        while str(RE.state) == "paused" and rounds < 4:
            rounds += 1
            out = _run_call_catch(RE.resume)
        case = {"probe": "replayed-group", "cmd": cmd}
        n_issued = len(dev.statuses) - (1 if cmd == "complete" else 0)
        if str(RE.state) != "idle" or n_issued < 2:
            bad.append(("replayed-group:scenario-did-not-replay", f"{cmd}: state {RE.state!s}, {n_issued} executions, last outcome {out[0]} {out[1]!r}", case))
        elif early:
            bad.append((f"replayed-{cmd}-lost-its-group:wait-returned-before-the-status-finished", f"{cmd}(group='g'), wait(group='g'), pause + resume: after the replay the message following wait was processed while the status of execution #{early[0]} of {cmd} was still unfinished", case))
    return bad


# ----------------------------------------------------------------------------- C05 / C03: a pause that a device refuses to replay
def noreplay_pause_probe():
    """a Pausable device raises NoReplayAllowed at the first pause (the engine then forgets the cached messages AND commits
    the numbering: nothing will be re-taken); a second, ordinary pause before the next checkpoint must not roll the counters
    back behind events that were emitted before the first pause"""
    from bluesky.utils import Msg, NoReplayAllowed

    class Det:
        parent = None
        name = "det"

        def __init__(self):
            self.n = 0
            self.pauses = 0

        def read(self):
            self.n += 1
            return {"det": {"value": self.n, "timestamp": 0.0}}

        def describe(self):
            return {"det": {"source": "sim", "dtype": "number", "shape": []}}

        def read_configuration(self):
            return {}

        def describe_configuration(self):
            return {}

        def pause(self):
            self.pauses += 1
            if self.pauses == 1:
                raise NoReplayAllowed()

        def resume(self):
            pass

    bad = []
    for before in (1, 2):
        for between in (0, 1):
            det = Det()

            def point():
                yield Msg("create", name="primary")
                yield Msg("read", det)
                yield Msg("save")

            def plan(before=before, between=between):
                yield Msg("open_run")
                yield Msg("checkpoint")
                for _ in range(before):
                    yield from point()
                yield Msg("pause")
                for _ in range(between):
                    yield from point()
                yield Msg("null")
                yield Msg("pause")
                yield from point()
                yield Msg("close_run")

            RE, docs = _engine()
            out = _run(RE, plan())
            rounds = 0
            while str(RE.state) == "paused" and rounds < 6:
                rounds += 1
                out = _run_call_catch(RE.resume)
            evs = [(d["seq_num"], d["data"]["det"]) for n, d in docs if n == "event"]
            stops = [d for n, d in docs if n == "stop"]
            case = {"probe": "noreplay-pause", "before": before, "between": between}
            if str(RE.state) != "idle" or len(stops) != 1:
                bad.append(("noreplay-pause:call-did-not-finish", f"{case}: state {RE.state!s}, {len(stops)} RunStop, {out[0]} {out[1]!r}", case))
                continue
            last = {}
            for s, v in evs:
                last[s] = v
            first_block = [v for s, v in evs][:before]
            lost = [v for v in first_block if v not in last.values()]
            if lost:
                bad.append(("noreplay-pause:seq_num-of-an-event-emitted-before-the-refused-replay-reused", f"{before} event(s) were emitted, the pause was refused replay (NoReplayAllowed), later a second pause + resume: events (seq_num, value) {evs}: the reading(s) {lost} emitted before the first pause lost their seq_num to later events; RunStop.num_events = {stops[0].get('num_events')}", case))
    return bad


# ----------------------------------------------------------------------------- C45: stream assets of devices without get_index
def stream_assets_probe():
    """a single device that reports its frames as stream assets from collect_asset_docs() -- with and without get_index() --
    collected several times into a declared stream: index ranges and seq_num ranges of its stream datums continue where the
    previous ones ended, have equal width, and RunStop.num_events equals the frames declared"""
    import bluesky.plan_stubs as bps

    class Writer:
        parent = None

        def __init__(self, name, progression, indexed):
            self.name, self.prog, self.indexed = name, list(progression), indexed
            self.keys = [f"{name}-image", f"{name}-sum"]
            self.written = self.collected = 0
            self.sent = False
            if indexed:
                self.get_index = lambda: self.written

        def advance(self):
            self.written = self.prog.pop(0)

        def describe_collect(self):
            return {k: {"source": "file", "dtype": "number", "shape": [], "external": "STREAM:"} for k in self.keys}

        def collect_asset_docs(self, index=None):
            index = self.written if index is None else index
            for key in self.keys:
                uid = f"{key}-res"
                if not self.sent:
                    yield ("stream_resource", {"uid": uid, "data_key": key, "mimetype": "application/x-hdf5", "uri": f"file://localhost/tmp/{self.name}.h5", "parameters": {"dataset": f"/{key}"}})
                if index > self.collected:
                    yield ("stream_datum", {"uid": f"{uid}/{self.collected}", "stream_resource": uid, "descriptor": "", "indices": {"start": self.collected, "stop": index}, "seq_nums": {"start": 0, "stop": 0}})
            self.sent = True
            self.collected = max(index, self.collected)

    bad = []
    for indexed in (False, True):
        for prog in ([4, 9, 12], [3, 3, 8], [5, 6]):
            det = Writer("cam", prog, indexed)

            def plan(det=det, n=len(prog)):
                yield from bps.open_run()
                yield from bps.declare_stream(det, name="fly", collect=True)
                for _ in range(n):
                    det.advance()
                    yield from bps.collect(det, name="fly")
                yield from bps.close_run()

            RE, docs = _engine()
            out = _run(RE, plan())
            case = {"probe": "stream-assets", "get_index": indexed, "frames_written_at_each_collect": prog}
            if out[0] != "return":
                bad.append(("stream-assets:call-failed", f"{case}: {out[1]!r}", case))
                continue
            desc = {d["uid"] for n, d in docs if n == "descriptor" and d["name"] == "fly"}
            res_key = {d["uid"]: d["data_key"] for n, d in docs if n == "stream_resource"}
            per = {}
            for n, d in docs:
                if n == "stream_datum" and d["descriptor"] in desc:
                    per.setdefault(res_key[d["stream_resource"]], []).append(d)
            frames = None
            for key, sds in sorted(per.items()):
                ni, ns = 0, 1
                for sd in sds:
                    ind, sq = sd["indices"], sd["seq_nums"]
                    if ind["start"] != ni or sq["start"] != ns or sq["stop"] - sq["start"] != ind["stop"] - ind["start"]:
                        bad.append(("stream-assets:ranges-do-not-line-up", f"device {'with' if indexed else 'without'} get_index, frames written {prog}: {key} got indices {ind} / seq_nums {sq}, expected to continue from index {ni} / seq_num {ns} with equal width", case))
                        break
                    ni, ns = ind["stop"], sq["stop"]
                frames = ni if frames is None else frames
            stop = [d for n, d in docs if n == "stop"][0]
            if frames is not None and stop["num_events"].get("fly") != frames:
                bad.append(("stream-assets:num_events-differs-from-frames", f"device {'with' if indexed else 'without'} get_index, frames written {prog}: RunStop.num_events['fly'] = {stop['num_events'].get('fly')} but {frames} frames were declared", case))
    return bad


# ----------------------------------------------------------------------------- C11: a re-trip inside the suspender's settle time
def settle_time_probe():
    """a suspender with a settle time (sleep > 0): trip, back to nominal, trip AGAIN before the settle time is over, nominal
    for good later.  The plan stays held until the condition has been released for the whole settle time: nothing of the
    user's plan and no `_resume_from_suspender` runs while the signal is bad.  (Real time: margins of >= 0.3 s between the
    scripted signal changes and the deadlines they race with.)"""
    import threading
    import time

    from bluesky.suspenders import SuspendBoolHigh
    from bluesky.utils import Msg

    class Sig:
        def __init__(self):
            self.name, self.value, self.subs = "sig", 0, []

        def get(self):
            return self.value

        def subscribe(self, cb, event_type=None, run=True):
            self.subs.append(cb)
            if run:
                cb(value=self.value, old_value=self.value, timestamp=0.0)
            return len(self.subs)

        def clear_sub(self, cb, event_type=None):
            self.subs = [c for c in self.subs if c is not cb]

        def put(self, v):
            old, self.value = self.value, v
            for cb in list(self.subs):
                cb(value=v, old_value=old, timestamp=0.0)

    bad = []
    sig = Sig()
    RE, docs = _engine()
    sus = SuspendBoolHigh(sig, sleep=1.0)
    RE.install_suspender(sus)
    log = []
    t0 = [None]
    timers = []
    tripped_once = threading.Event()

    def put(v):
        sig.put(v)
        if v == 1:
            tripped_once.set()

    def hook(msg):
        if msg.command == "sleep" and t0[0] is None:
            # the clock of the scenario starts when the plan reaches its long sleep (independent of how busy the machine is)
            t0[0] = time.time()
            for dt, v in ((0.3, 1), (0.7, 0), (1.1, 1), (2.2, 0)):
                t = threading.Timer(dt, put, (v,))
                t.daemon = True
                t.start()
                timers.append(t)
            return
        if t0[0] is not None:
            log.append((round(time.time() - t0[0], 2), msg.command, sig.value, bool(sus.tripped), tripped_once.is_set()))

    RE.msg_hook = hook
    out = _run(RE, _listplan(Msg("open_run"), Msg("checkpoint"), Msg("null"), Msg("sleep", None, 1.5), Msg("null"), Msg("close_run")))
    for t in timers:
        t.join(5)
    RE.remove_suspender(sus)
    case = {"probe": "settle-time", "suspender": "SuspendBoolHigh(sleep=1.0)", "signal": [[0.3, 1], [0.7, 0], [1.1, 1], [2.2, 0]]}
    if out[0] != "return":
        bad.append(("settle-time:call-failed", f"{out[1]!r}", case))
    wrong = [e for e in log if e[1] in ("_resume_from_suspender", "null", "close_run", "sleep") and e[4] and (e[2] == 1 or e[3])]
    if wrong:
        bad.append(("plan-resumed-while-the-suspender-is-tripped:re-trip-inside-the-settle-time", f"signal high 0.3-0.7 s and again 1.1-2.2 s, settle time 1.0 s: {wrong[0][1]!r} was processed at t={wrong[0][0]} s with signal={wrong[0][2]}, tripped={wrong[0][3]}", case))
    resumed = [e for e in log if e[1] == "_resume_from_suspender"]
    if resumed and resumed[-1][0] < 3.0:
        bad.append(("suspension-released-before-the-settle-time-elapsed", f"last _resume_from_suspender at t={resumed[-1][0]} s; the signal has only been low since 2.2 s (settle time 1.0 s)", case))
    return bad


# ----------------------------------------------------------------------------- C31: a trip that arrived while the engine's loop was busy
def busy_loop_trip_probe():
    """an installed suspender trips while the engine is idle and its loop is too busy (> 0.1 s) to make the suspender's event:
    the trip is registered all the same, and the next RE(plan) is gated until the condition is released"""
    import threading
    import time

    from bluesky.suspenders import SuspendBoolHigh
    from bluesky.utils import Msg

    class Sig:
        def __init__(self):
            self.name, self.value, self.subs = "sig", 0, []

        def get(self):
            return self.value

        def subscribe(self, cb, event_type=None, run=True):
            self.subs.append(cb)
            if run:
                cb(value=self.value, old_value=self.value, timestamp=0.0)
            return len(self.subs)

        def clear_sub(self, cb, event_type=None):
            self.subs = [c for c in self.subs if c is not cb]

        def put(self, v):
            old, self.value = self.value, v
            for cb in list(self.subs):
                cb(value=v, old_value=old, timestamp=0.0)

    bad = []
    sig = Sig()
    RE, docs = _engine()
    sus = SuspendBoolHigh(sig)
    RE.install_suspender(sus)
    _run(RE, _listplan(Msg("null")))            # the loop thread is up
    busy = threading.Event()

    def block():
        busy.set()
        time.sleep(0.4)

    RE.loop.call_soon_threadsafe(block)
    busy.wait(2)
    try:
        sig.put(1)                               # __make_event cannot reach the loop within 0.1 s
        raised = None
    except RuntimeError as e:
        raised = e
    time.sleep(0.5)
    case = {"probe": "busy-loop-trip"}
    if not sus.tripped:
        bad.append(("trip-during-a-busy-loop-not-registered", f"SuspendBoolHigh saw the signal go high while the engine's loop was busy ({'RuntimeError raised' if raised else 'no error'}): tripped = {sus.tripped}", case))
    seen = []
    RE.msg_hook = lambda m: seen.append((m.command, sig.value))
    box = {}
    th = threading.Thread(target=lambda: box.update(out=_run(RE, _listplan(Msg("null", marker=1), Msg("null")))), daemon=True)
    th.start()
    time.sleep(0.6)
    started_early = [s for s in seen if s[0] == "null"]
    sig.put(0)
    th.join(5)
    RE.remove_suspender(sus)
    if started_early:
        bad.append(("plan-started-while-a-suspender-is-tripped:trip-during-a-busy-loop", f"the signal was still high, tripped = True, yet RE(plan) executed {started_early} before the release", case))
    if th.is_alive() or box.get("out", ("?",))[0] != "return":
        bad.append(("busy-loop-trip:plan-did-not-finish-after-release", f"{box.get('out')}", case))
        if th.is_alive():
            with contextlib.suppress(Exception):
                RE.halt()
    return bad


# ----------------------------------------------------------------------------- C16: configuration recorded by descriptors
def configuration_probe():
    """(a) a device whose configuration KEY SET changes when it is configured (a setting that only exists in one mode): the
    descriptors made after `configure` record exactly what the device reports then -- no stale keys; (b) an old-style flyer
    (streams from describe_collect) configured between two collects: the events of the second collect reference descriptors
    that carry the new configuration"""
    from bluesky.utils import Msg

    class ModeDet:
        parent = None

        def __init__(self, name):
            self.name, self.manual = name, True
            self.gain, self.exposure = 4, 0.1

        def read(self):
            return {self.name: {"value": 1, "timestamp": 0.0}}

        def describe(self):
            return {self.name: {"source": "sim", "dtype": "number", "shape": []}}

        def _cfg(self):
            d = {f"{self.name}_exposure": self.exposure}
            if self.manual:
                d[f"{self.name}_gain"] = self.gain
            return d

        def read_configuration(self):
            return {k: {"value": v, "timestamp": 1.0} for k, v in self._cfg().items()}

        def describe_configuration(self):
            return {k: {"source": "sim", "dtype": "number", "shape": []} for k in self._cfg()}

        def configure(self, d):
            old = self.read_configuration()
            self.manual = d.get("manual", self.manual)
            self.exposure = d.get("exposure", self.exposure)
            return old, self.read_configuration()

    bad = []
    for streams in (("primary",), ("primary", "baseline")):
        det = ModeDet("det")
        RE, docs = _engine()
        msgs = [Msg("open_run")]
        for st in streams:
            msgs += [Msg("create", name=st), Msg("read", det), Msg("save")]
        msgs += [Msg("configure", det, {"manual": False, "exposure": 0.5})]
        for st in streams:
            msgs += [Msg("create", name=st), Msg("read", det), Msg("save")]
        msgs += [Msg("close_run")]
        out = _run(RE, _listplan(*msgs))
        case = {"probe": "configuration", "streams": list(streams), "what": "key set shrinks"}
        if out[0] != "return":
            bad.append(("configuration:call-failed", f"{out[1]!r}", case))
            continue
        descs = [d for n, d in docs if n == "descriptor"]
        for st in streams:
            mine = [d for d in descs if d["name"] == st]
            if len(mine) != 2:
                bad.append(("configuration:stream-without-new-descriptor", f"stream {st}: {len(mine)} descriptors (one before, one after configure expected)", case))
                continue
            data = mine[-1]["configuration"]["det"]["data"]
            if data != {"det_exposure": 0.5}:
                bad.append(("configuration:descriptor-records-keys-the-device-no-longer-reports", f"stream {st}: after configure the device reports {{'det_exposure': 0.5}}; the new descriptor records {data}", case))
            events = [d for n, d in docs if n == "event" and d["descriptor"] in {m["uid"] for m in mine}]
            if events and events[-1]["descriptor"] != mine[-1]["uid"]:
                bad.append(("configuration:later-event-references-old-descriptor", f"stream {st}", case))

    # (b) old-style flyer
    class Flyer:
        parent = None
        name = "flyer"

        def __init__(self):
            self.rate, self.t, self.pending = 10, 0.0, []

        def kickoff(self):
            self.pending = []
            for _ in range(2):
                self.t += 1.0
                self.pending.append({"data": {"fast": self.t}, "timestamps": {"fast": self.t}, "time": self.t})
            self.t += 1.0
            self.pending.append({"data": {"slow": -self.t}, "timestamps": {"slow": self.t}, "time": self.t})
            st = _Status()
            st.finish(True)
            return st

        def complete(self):
            st = _Status()
            st.finish(True)
            return st

        def describe_collect(self):
            return {"fly_fast": {"fast": {"source": "sim", "dtype": "number", "shape": []}},
                    "fly_slow": {"slow": {"source": "sim", "dtype": "number", "shape": []}}}

        def collect(self):
            p, self.pending = self.pending, []
            yield from p

        def read_configuration(self):
            return {"flyer_rate": {"value": self.rate, "timestamp": 1.0}}

        def describe_configuration(self):
            return {"flyer_rate": {"source": "sim", "dtype": "number", "shape": []}}

        def configure(self, d):
            old = self.read_configuration()
            self.rate = d["rate"]
            return old, self.read_configuration()

    fly = Flyer()
    RE, docs = _engine()
    cyc = [Msg("kickoff", fly, group="k"), Msg("wait", None, group="k"), Msg("complete", fly, group="c"), Msg("wait", None, group="c"), Msg("collect", fly)]
    out = _run(RE, _listplan(Msg("open_run"), *cyc, Msg("configure", fly, {"rate": 50}), *cyc, Msg("close_run")))
    case = {"probe": "configuration", "what": "old-style flyer configured between collects"}
    if out[0] != "return":
        bad.append(("configuration:flyer-call-failed", f"{out[1]!r}", case))
    else:
        desc = {d["uid"]: d for n, d in docs if n == "descriptor"}
        seen_cfg = False
        for n, d in docs:
            if n == "descriptor" and d["configuration"].get("flyer", {}).get("data", {}).get("flyer_rate") == 50:
                seen_cfg = True
            refs = [d["descriptor"]] if n in ("event", "event_page") else []
            for u in refs:
                rate = desc[u]["configuration"].get("flyer", {}).get("data", {}).get("flyer_rate")
                if seen_cfg and rate != 50:
                    bad.append(("configuration:collected-event-after-configure-references-old-descriptor", f"a {n} of stream {desc[u]['name']} collected after configure(rate=50) references a descriptor recording flyer_rate = {rate}", case))
                    break
        if not seen_cfg:
            bad.append(("configuration:no-descriptor-with-new-configuration", "configure(flyer) emitted no descriptor recording rate 50", case))
    return bad


# ----------------------------------------------------------------------------- C41: monitor subscriptions (options, first delivery)
class _MonSig:
    parent = None

    def __init__(self, name, deliver_on_subscribe):
        self.name, self.deliver = name, deliver_on_subscribe
        self.subs = []          # [(cb, kwargs)]
        self.calls = []         # subscribe kwargs in call order
        self.value = 1

    def subscribe(self, cb, **kw):
        self.subs.append((cb, dict(kw)))
        self.calls.append(dict(kw))
        if self.deliver:
            cb()
        return len(self.subs)

    def clear_sub(self, cb):
        self.subs = [(c, k) for c, k in self.subs if c != cb]

    def read(self):
        return {self.name: {"value": self.value, "timestamp": 0.0}}

    def describe(self):
        return {self.name: {"source": "sim", "dtype": "number", "shape": []}}

    def read_configuration(self):
        return {}

    def describe_configuration(self):
        return {}

    def fire(self):
        self.value += 1
        for cb, _ in list(self.subs):
            cb()


def monitor_options_probe():
    """(a) a monitor requested with subscribe options keeps them across pause / resume (the engine unsubscribes while paused
    and re-subscribes with the SAME options); (b) a device that delivers its current value synchronously inside subscribe():
    if that first delivery fails (a document consumer raises once) the half-made monitor is still known to the engine, so no
    subscription survives the end of the call"""
    from bluesky.utils import Msg

    bad = []
    # (a)
    for opts in ({"event_type": "setpoint"}, {"event_type": "readback", "dummy": 1}):
        sig = _MonSig("sig", False)
        RE, docs = _engine()
        out = _run(RE, _listplan(Msg("open_run"), Msg("monitor", sig, name="sig_monitor", **opts), Msg("checkpoint"), Msg("null"), Msg("pause"), Msg("null"), Msg("unmonitor", sig), Msg("close_run")))
        during_pause = list(sig.subs)
        rounds = 0
        while str(RE.state) == "paused" and rounds < 4:
            rounds += 1
            out = _run_call_catch(RE.resume)
        case = {"probe": "monitor-options", "options": opts}
        if str(RE.state) != "idle":
            bad.append(("monitor-options:call-did-not-finish", f"{case}: {out!r}", case))
            continue
        if during_pause:
            bad.append(("monitor-subscribed-while-paused", f"{len(during_pause)} subscription(s) on the signal while the engine was paused", case))
        if any(k != opts for k in sig.calls) or len(sig.calls) < 2:
            bad.append(("monitor-resubscribed-with-different-options", f"monitor(sig, **{opts}): the signal's subscribe() was called with {sig.calls} (first by the monitor message, then after the resume)", case))
        if sig.subs:
            bad.append(("monitor-subscription-left", f"{len(sig.subs)} subscription(s) left at idle", case))
    # (b)
    for swallow in (True, False):
        sig = _MonSig("sig", True)
        RE, docs = _engine()
        state = {"failed": False}

        def consumer(name, doc, state=state):
            if name == "event" and not state["failed"]:
                state["failed"] = True
                raise OSError("consumer failed on the first monitor event")

        RE.subscribe(consumer)

        def plan(swallow=swallow, sig=sig):
            yield Msg("open_run")
            try:
                yield Msg("monitor", sig, name="sig_monitor")
            except OSError:
                if not swallow:
                    raise
            yield Msg("null")
            yield Msg("close_run")

        out = _run(RE, plan())
        n_after = len(docs)
        sig.fire()
        case = {"probe": "monitor-options", "first_delivery_fails": True, "plan_swallows": swallow}
        if sig.subs:
            bad.append(("monitor-subscription-left:first-delivery-failed", f"the signal delivers inside subscribe(), the first delivery failed ({'swallowed by the plan' if swallow else 'the plan died'}): {len(sig.subs)} subscription(s) left at idle", case))
        if len(docs) != n_after:
            bad.append(("document-after-the-call:first-delivery-failed", f"an update after the call emitted {[n for n, _ in docs[n_after:]]}", case))
    return bad


# ----------------------------------------------------------------------------- C13: responses under the relative / reset wrappers
def wrapper_response_probe():
    """the value a plan receives for `set` is the status the device returned -- also for the FIRST set on a device under
    relative_set_wrapper / reset_positions_wrapper (where the wrappers insert a read / locate in front of it) and for mvr"""
    import bluesky.plan_stubs as bps
    from bluesky.preprocessors import relative_set_wrapper, reset_positions_wrapper
    from bluesky.utils import Msg

    class Pos:
        parent = None

        def __init__(self, name, kind):
            self.name, self.kind, self.handed_out = name, kind, []
            self._p = 2.0
            if kind == "position":
                self.position = 2.0

        def set(self, v):
            self._p = v
            st = _Status()
            st.finish(True)
            self.handed_out.append(st)
            return st

        def read(self):
            return {self.name: {"value": self._p, "timestamp": 0.0}}

        def describe(self):
            return {self.name: {"source": "sim", "dtype": "number", "shape": []}}

        def read_configuration(self):
            return {}

        def describe_configuration(self):
            return {}

    class LocPos(Pos):
        async def locate(self):
            return {"setpoint": self._p, "readback": self._p}

    bad = []
    for kind in ("position", "read-only", "locatable"):
        for wrapper in ("relative_set_wrapper", "reset_positions_wrapper", "mvr"):
            dev = (LocPos if kind == "locatable" else Pos)("dev", kind)
            got = []

            def inner(dev=dev, got=got):
                got.append((yield Msg("set", dev, 1.0, group="g")))
                yield Msg("wait", None, group="g")
                got.append((yield Msg("set", dev, 2.0, group="g")))
                yield Msg("wait", None, group="g")

            RE, docs = _engine()
            if wrapper == "mvr":
                box = {}

                def outer(dev=dev, box=box):
                    box["ret"] = yield from bps.mvr(dev, 1.0)

                out = _run(RE, outer())
                ok = out[0] == "return" and isinstance(box.get("ret"), tuple) and len(box["ret"]) == 1 and box["ret"][0] is dev.handed_out[0]
                what = f"mvr returned {box.get('ret')!r}"
            else:
                w = relative_set_wrapper if wrapper == "relative_set_wrapper" else reset_positions_wrapper
                out = _run(RE, w(inner(), [dev]))
                ok = out[0] == "return" and len(got) == 2 and got[0] is dev.handed_out[0] and got[1] is dev.handed_out[1]
                what = f"the two set yields received {[type(x).__name__ if not isinstance(x, dict) else 'reading-dict' for x in got]}"
            if not ok:
                bad.append((f"set-under-{wrapper}-did-not-receive-its-status:{kind}-device", f"{wrapper} over a {kind} device: {what} ({out[0]} {out[1]!r}); expected the status objects handed out by device.set", {"probe": "wrapper-response", "wrapper": wrapper, "device": kind}))
    return bad


# ----------------------------------------------------------------------------- C18: in-plan subscriptions are not replayed
def inplan_subscription_probe():
    """an in-plan subscribe, a pause and resume before the next checkpoint (the subscribe is NOT replayed), then the plan's
    unsubscribe of its own token: the callback stops receiving; an in-plan subscription never outlives its call either"""
    from bluesky.utils import Msg

    bad = []
    for unsub in (True, False):
        RE, docs = _engine()
        got = []

        def cb(name, doc):
            got.append(name)

        def plan(unsub=unsub):
            yield Msg("open_run")
            yield Msg("checkpoint")
            tok = yield Msg("subscribe", None, cb, "all")
            yield Msg("null")
            yield Msg("pause")
            yield Msg("null")
            yield Msg("close_run")
            if unsub:
                yield Msg("unsubscribe", None, tok)
            yield Msg("open_run")
            yield Msg("close_run")

        out = _run(RE, plan())
        rounds = 0
        while str(RE.state) == "paused" and rounds < 4:
            rounds += 1
            out = _run_call_catch(RE.resume)
        first_call = list(got)
        _run(RE, _listplan(Msg("open_run"), Msg("close_run")))
        later = got[len(first_call):]
        case = {"probe": "inplan-subscription", "plan_unsubscribes": unsub}
        if str(RE.state) != "idle" or out[0] != "return":
            bad.append(("inplan-subscription:call-did-not-finish", f"{case}: {out[0]} {out[1]!r} state {RE.state!s}", case))
            continue
        want = ["stop"] if unsub else ["stop", "start", "stop"]
        if first_call != want:
            bad.append(("inplan-subscription:wrong-documents-in-its-call", f"subscribe in plan, pause + resume, close_run{', unsubscribe(token)' if unsub else ''}, a second run: the callback received {first_call}, expected {want}", case))
        if later:
            bad.append(("leaked:in-plan-subscription-outlives-its-call", f"the callback subscribed by an in-plan message received {later} in the NEXT call", case))
    return bad


def equal_instances_probe():
    """two DISTINCT instances that compare equal (e.g. empty dict-derived collectors) subscribe the same method: they are two
    callables -- both receive every document, and unsubscribing one token leaves the other one connected"""
    from bluesky.utils import Msg

    class Holder(dict):
        def __init__(self):
            super().__init__()
            self.seen = []

        def cb(self, name, doc):
            self.seen.append(name)

    bad = []
    RE, docs = _engine()
    a, b = Holder(), Holder()
    assert a == b and a is not b
    ta = RE.subscribe(a.cb)
    tb = RE.subscribe(b.cb)
    _run(RE, _listplan(Msg("open_run"), Msg("close_run")))
    case = {"probe": "equal-instances"}
    if a.seen != ["start", "stop"] or b.seen != ["start", "stop"]:
        bad.append(("silenced:equal-but-distinct-instances-deduplicated", f"two equal-but-distinct collectors subscribed their bound method: first saw {a.seen}, second saw {b.seen}", case))
    RE.unsubscribe(ta)
    a.seen.clear()
    b.seen.clear()
    _run(RE, _listplan(Msg("open_run"), Msg("close_run")))
    if a.seen != [] or b.seen != ["start", "stop"]:
        bad.append(("removal-not-local:equal-but-distinct-instances", f"after unsubscribing the first collector's token: first saw {a.seen}, second saw {b.seen}", case))
    return bad


# ----------------------------------------------------------------------------- C07: a fault right after the state assignment of a request
def raising_state_hook_probe():
    """RE.state_hook is user code; if it raises when abort / stop / halt assign their state from 'paused', the request's
    blocking call reports that error -- but the parked plan is still woken, torn down and the engine ends idle, usable for
    the next call (never wedged in 'stopping' / 'aborting' / 'halting')"""
    from bluesky.utils import Msg

    bad = []
    for req, st_name in (("stop", "stopping"), ("abort", "aborting"), ("halt", "halting")):
        RE, docs = _engine()

        def plan():
            yield Msg("open_run")
            yield Msg("checkpoint")
            yield Msg("pause")
            yield Msg("null")
            yield Msg("close_run")

        _run(RE, plan())
        if str(RE.state) != "paused":
            bad.append(("raising-state-hook:did-not-pause", f"state {RE.state!s}", {"probe": "raising-state-hook", "request": req}))
            continue

        def hook(new, old, st_name=st_name):
            if str(new) == st_name:
                raise KeyError(f"state hook failed on {new}")

        RE.state_hook = hook
        r = _run_call_catch(getattr(RE, req))
        RE.state_hook = None
        import time

        t0 = time.time()
        while str(RE.state) != "idle" and time.time() - t0 < 2.0:
            time.sleep(0.01)
        case = {"probe": "raising-state-hook", "request": req}
        if str(RE.state) != "idle":
            bad.append((f"engine-wedged-in-{RE.state!s}:state-hook-raised", f"RE.{req}() from paused with a state_hook raising on {st_name!r} ended {r[0]} {type(r[1]).__name__ if r[1] else ''}; the engine stays in {RE.state!s}", case))
            continue
        r2 = _run(RE, _listplan(Msg("open_run"), Msg("close_run")))
        if r2[0] != "return":
            bad.append(("engine-unusable-after-state-hook-error", f"after RE.{req}() with a raising state_hook the next call ended {r2[0]} {r2[1]!r}", case))
    return bad


# ----------------------------------------------------------------------------- C08 / C10: what one call leaves behind for the next
def second_call_probe():
    """a call whose plan used clear_checkpoint (non-resumable from there on) ends; the NEXT call starts resumable again: a
    pause right after its checkpoint pauses the engine (RunEngineInterrupted, state 'paused', resume works)"""
    from bluesky.utils import Msg, RunEngineInterrupted

    bad = []
    for first in ("clear_checkpoint", "clear_checkpoint+checkpoint", "rewindable-false"):
        RE, docs = _engine()

        def plan1(first=first):
            yield Msg("open_run")
            yield Msg("checkpoint")
            if first.startswith("clear_checkpoint"):
                yield Msg("clear_checkpoint")
            else:
                yield Msg("rewindable", None, False)
            yield Msg("null")
            if first.endswith("+checkpoint"):
                yield Msg("checkpoint")
            if first == "rewindable-false":
                yield Msg("rewindable", None, True)
            yield Msg("close_run")

        def plan2():
            yield Msg("open_run")
            yield Msg("checkpoint")
            yield Msg("null")
            yield Msg("pause")
            yield Msg("null")
            yield Msg("close_run")

        o1 = _run(RE, plan1())
        o2 = _run(RE, plan2())
        st = str(RE.state)
        case = {"probe": "second-call", "first_call": first}
        if o1[0] != "return":
            bad.append(("second-call:first-call-failed", f"{first}: {o1[1]!r}", case))
        if not (o2[0] == "raise" and isinstance(o2[1], RunEngineInterrupted) and st == "paused"):
            bad.append(("second-call:pause-after-a-checkpoint-did-not-pause", f"first call used {first}; in the second call (open_run, checkpoint, null, pause) the engine ended {o2[0]} {type(o2[1]).__name__ if o2[1] else ''} in state {st!r} instead of paused / RunEngineInterrupted", case))
            continue
        o3 = _run_call_catch(RE.resume)
        if o3[0] != "return" or str(RE.state) != "idle":
            bad.append(("second-call:resume-failed", f"first call used {first}; resume() of the second call: {o3[0]} {o3[1]!r}, state {RE.state!s}", case))
    return bad


# ----------------------------------------------------------------------------- C10: non-resumable sections under run_wrapper
def nonresumable_wrapper_probe():
    """a pause / suspension in a non-resumable section of a plan written with run_wrapper / run_decorator: the engine aborts
    cleanly -- RunEngineInterrupted, idle, the run closed (by the wrapper's own error handling) exactly once"""
    from bluesky.preprocessors import run_decorator, run_wrapper
    from bluesky.utils import Msg, RunEngineInterrupted

    bad = []
    for form in ("wrapper", "decorator"):
        for how in ("pause-message", "deferred-at-checkpoint"):
            def body(how=how):
                yield Msg("checkpoint")
                yield Msg("null")
                yield Msg("clear_checkpoint")
                yield Msg("null")
                if how == "pause-message":
                    yield Msg("pause")
                else:
                    yield Msg("pause", None, defer=True)
                    yield Msg("null")
                    yield Msg("checkpoint")
                yield Msg("null")

            plan = run_wrapper(body(), md={}) if form == "wrapper" else run_decorator(md={})(body)()
            RE, docs = _engine()
            out = _run(RE, plan)
            stops = [d for n, d in docs if n == "stop"]
            case = {"probe": "nonresumable-wrapper", "form": form, "how": how}
            where = f"run_{form}, {how} after clear_checkpoint"
            if not (out[0] == "raise" and isinstance(out[1], RunEngineInterrupted)) or str(RE.state) != "idle":
                bad.append(("nonresumable-wrapper:not-reported-as-interruption", f"{where}: RE(...) ended with {out[0]} {type(out[1]).__name__ if out[1] is not None else ''}: {out[1]}; state {RE.state!s}", case))
            # the wrapper closes the run itself ('fail': FailedPause is not a RunEngineControlException); what C10 asks for is
            # that the run IS closed, once
            if len(stops) != 1:
                bad.append(("nonresumable-wrapper:run-not-closed-once", f"{where}: RunStop documents {[(d['exit_status'], d.get('reason')) for d in stops]}", case))
    return bad


# ----------------------------------------------------------------------------- C01: external asset documents belong to their run
def external_assets_probe():
    """a detector that writes external assets (collect_asset_docs) and composes its Resource with a STAND-IN RunStart
    without popping 'run_start' again: the RunEngine stamps every Resource with the uid of the run that is open, emitted
    after that run's RunStart; every datum refers to an emitted resource"""
    import time

    import event_model
    from bluesky.utils import Msg

    class FileDet:
        parent = None

        def __init__(self, name, keep_run_start):
            self.name, self.keep = name, keep_run_start
            self._docs, self._cd = [], None

        def stage(self):
            b = event_model.compose_resource(start={"uid": "not-a-real-run", "time": 0.0}, spec="NPY_SEQ", root="/data",
                                             resource_path=f"{self.name}/frames", resource_kwargs={})
            doc = dict(b.resource_doc)
            if not self.keep:
                doc.pop("run_start", None)
            self._cd = b.compose_datum
            self._docs.append(("resource", doc))
            return [self]

        def unstage(self):
            return [self]

        def describe(self):
            return {f"{self.name}_image": {"source": "sim", "dtype": "array", "shape": [4, 4], "external": "FILESTORE:"}}

        def read(self):
            d = self._cd(datum_kwargs={"index": 0})
            self._docs.append(("datum", d))
            return {f"{self.name}_image": {"value": d["datum_id"], "timestamp": time.time()}}

        def collect_asset_docs(self):
            docs, self._docs = self._docs, []
            yield from docs

        def read_configuration(self):
            return {}

        def describe_configuration(self):
            return {}

    bad = []
    for keep in (True, False):
        for nruns in (1, 2):
            RE, docs = _engine()
            det = FileDet("cam", keep)

            def plan(det=det, nruns=nruns):
                for _ in range(nruns):
                    yield Msg("stage", det)
                    yield Msg("open_run")
                    for _ in range(2):
                        yield Msg("checkpoint")
                        yield Msg("create", name="primary")
                        yield Msg("read", det)
                        yield Msg("save")
                    yield Msg("close_run")
                    yield Msg("unstage", det)

            out = _run(RE, plan())
            case = {"probe": "external-assets", "resource_carries_run_start": keep, "runs": nruns}
            if out[0] != "return":
                bad.append(("external-assets:call-failed", f"{case}: {type(out[1]).__name__}: {out[1]}", case))
                continue
            cur = None
            resources = set()
            for n, d in docs:
                if n == "start":
                    cur = d["uid"]
                elif n == "stop":
                    cur = None
                elif n == "resource":
                    resources.add(d["uid"])
                    if d.get("run_start") != cur or cur is None:
                        bad.append(("external-assets:resource-refers-to-another-run", f"a Resource emitted inside run {cur} carries run_start = {d.get('run_start')!r} (the device composed it with a stand-in RunStart{' and left run_start in' if keep else ''})", case))
                        break
                elif n == "datum" and d.get("resource") not in resources:
                    bad.append(("external-assets:datum-before-its-resource", f"datum {d.get('datum_id')} refers to resource {d.get('resource')} which was not emitted before", case))
                    break
    return bad


# ----------------------------------------------------------------------------- C17: the metadata mapping handed to the engine
def metadata_store_probe():
    """(a) the mapping passed to RunEngine(md) IS RE.md -- also when it is empty at construction time -- so scan_id is kept
    in the caller's (persistent) store and continues across engines; (b) the validator only accepts or rejects: a validator
    that scribbles on its argument does not change the RunStart"""
    from bluesky import RunEngine
    from bluesky.utils import Msg

    class Store(dict):
        pass

    bad = []
    for mk in (dict, Store):
        md = mk()
        logging.getLogger("bluesky").setLevel(logging.CRITICAL)
        seen = []
        for session in range(2):
            RE = RunEngine(md, context_managers=[], loop=_loop())
            docs = []
            RE.subscribe(lambda n, d, docs=docs: docs.append((n, d)))
            case = {"probe": "metadata-store", "mapping": mk.__name__, "session": session}
            if RE.md is not md:
                bad.append(("metadata-store:engine-does-not-use-the-mapping-it-was-given", f"RunEngine(md) with an {'empty ' if not md else ''}{mk.__name__}: RE.md is not that object", case))
            _run(RE, [Msg("open_run"), Msg("close_run")])
            _run(RE, [Msg("open_run"), Msg("close_run")])
            seen += [d.get("scan_id") for n, d in docs if n == "start"]
        if seen != [1, 2, 3, 4] or md.get("scan_id") != 4:
            bad.append(("metadata-store:scan_id-not-kept-in-the-callers-store", f"two engines in a row over one {mk.__name__} (empty at first): scan_ids {seen}, store says {md.get('scan_id')!r}", {"probe": "metadata-store", "mapping": mk.__name__}))
    # (b) mutating validators
    for kind in ("pops", "adds", "clears"):
        RE, docs = _engine()

        def validator(d, kind=kind):
            if kind == "pops":
                for k in list(d):
                    if k not in ("uid",):
                        d.pop(k)
            elif kind == "adds":
                d["sample"] = "filled-in-by-validator"
                d["operator"] = "changed"
            else:
                d.clear()

        RE.md_validator = validator
        out = _run(RE, _listplan(Msg("open_run", operator="me"), Msg("close_run")))
        starts = [d for n, d in docs if n == "start"]
        case = {"probe": "metadata-store", "validator": kind}
        if out[0] != "return" or len(starts) != 1:
            bad.append(("metadata-store:run-with-mutating-validator-failed", f"validator that {kind}: {out[0]} {out[1]!r}, {len(starts)} RunStart", case))
            continue
        s = starts[0]
        if s.get("scan_id") != 1 or s.get("operator") != "me" or "sample" in s or "plan_type" not in s:
            bad.append(("metadata-store:validator-changed-the-RunStart", f"validator that {kind} its argument: RunStart has scan_id={s.get('scan_id')!r}, operator={s.get('operator')!r}, sample={s.get('sample')!r}, keys {sorted(s)}", case))
    return bad


def _listplan(*msgs):
    def plan():
        for m in msgs:
            yield m
    return plan()


# ----------------------------------------------------------------------------- C19: a subscriber that dies during a dispatch
def dying_subscriber_probe():
    """a bound-method subscription whose owner is released by an EARLIER callback during the same dispatch (the registry
    holds bound methods weakly): the dead subscription is skipped and dropped, nothing is raised, later callbacks still get
    the document"""
    import gc

    from bluesky.utils import Msg

    bad = []
    for at in ("stop", "event", "descriptor"):
        RE, docs = _engine()
        got = {"consumer": [], "last": []}

        class Consumer:
            def cb(self, name, doc):
                got["consumer"].append(name)

        class Manager:
            def __init__(self):
                self.consumer = Consumer()

            def __call__(self, name, doc, at=at):
                if name == at and self.consumer is not None:
                    self.consumer = None
                    gc.collect()

        mgr = Manager()
        RE.subscribe(mgr)
        RE.subscribe(mgr.consumer.cb)
        RE.subscribe(lambda n, d: got["last"].append(n))

        class Det:
            parent = None
            name = "det"

            def read(self):
                return {"det": {"value": 1, "timestamp": 0.0}}

            def describe(self):
                return {"det": {"source": "sim", "dtype": "number", "shape": []}}

            def read_configuration(self):
                return {}

            def describe_configuration(self):
                return {}

        det = Det()
        out = _run(RE, _listplan(Msg("open_run"), Msg("create", name="primary"), Msg("read", det), Msg("save"), Msg("close_run")))
        out2 = _run(RE, _listplan(Msg("open_run"), Msg("close_run")))
        case = {"probe": "dying-subscriber", "released_at": at}
        want = ["start", "descriptor", "event", "stop", "start", "stop"]
        if out[0] != "return" or out2[0] != "return":
            bad.append((f"dying-subscriber:call-raised:{type((out[1] or out2[1])).__name__}", f"the owner of a bound-method subscription was released by an earlier callback at the {at} document: RE(...) raised {out[1]!r} / {out2[1]!r} although no callback raised", case))
        elif got["last"] != want:
            bad.append(("dying-subscriber:later-callback-missed-documents", f"released at {at}: the callback subscribed last received {got['last']}, expected {want}", case))
    return bad


# ----------------------------------------------------------------------------- C05: numbering across non-rewindable regions
def nonrewindable_region_probe():
    """events saved while rewinding is switched OFF are never re-taken; when rewinding is switched back ON the numbering so
    far is committed, so a later pause + resume (rewind) must not hand their seq_nums out again.  Plans: k points inside a
    rewindable(False) .. rewindable(True) region, then j cacheable messages, a pause (resumed from the main thread), more
    points; also the order ON->OFF->pause inside the region (aborts: not resumable -- not judged here)."""
    from bluesky.utils import Msg, RunEngineInterrupted

    class Det:
        parent = None
        name = "det"

        def __init__(self):
            self.n = 0

        def read(self):
            self.n += 1
            return {"det": {"value": self.n, "timestamp": 0.0}}

        def describe(self):
            return {"det": {"source": "sim", "dtype": "number", "shape": []}}

        def read_configuration(self):
            return {}

        def describe_configuration(self):
            return {}

        def trigger(self):
            st = _Status()
            st.finish(True)
            return st

    bad = []
    for k in (1, 2):
        for j in (1, 2):
            for after in (1, 2):
                det = Det()

                def point():
                    yield Msg("create", name="primary")
                    yield Msg("read", det)
                    yield Msg("save")

                def plan(k=k, j=j, after=after):
                    yield Msg("open_run")
                    yield Msg("checkpoint")
                    yield Msg("rewindable", None, False)
                    for _ in range(k):
                        yield from point()
                    yield Msg("rewindable", None, True)
                    for _ in range(j):
                        yield Msg("null")
                    yield Msg("pause")
                    for _ in range(after):
                        yield from point()
                    yield Msg("close_run")

                RE, docs = _engine()
                out = _run(RE, plan())
                rounds = 0
                while str(RE.state) == "paused" and rounds < 5:
                    rounds += 1
                    out = _run_call_catch(RE.resume)
                evs = [(d["seq_num"], d["data"]["det"]) for n, d in docs if n == "event"]
                stops = [d for n, d in docs if n == "stop"]
                case = {"probe": "nonrewindable-region", "k": k, "j": j, "after": after}
                seqs = [s for s, _ in evs]
                vals = [v for _, v in evs]
                if str(RE.state) != "idle" or len(stops) != 1:
                    bad.append(("nonrewindable-region:call-did-not-finish", f"k={k}, j={j}, after={after}: state {RE.state!s}, {len(stops)} RunStop, last outcome {out[0]}", case))
                    continue
                if len(set(vals)) == len(vals) and seqs != list(range(1, len(seqs) + 1)):
                    bad.append(("nonrewindable-region:seq_num-reused-for-distinct-events", f"{k} point(s) saved while rewinding was off, rewindable(True), {j} cacheable message(s), pause + resume, {after} more point(s): {len(vals)} distinct readings {vals} carry seq_nums {seqs}", case))
                ne = stops[0].get("num_events", {}).get("primary")
                if len(set(vals)) == len(vals) and ne != len(evs):
                    bad.append(("nonrewindable-region:num_events-differs-from-events-emitted", f"{len(evs)} distinct events were emitted (seq_nums {seqs}) but RunStop.num_events['primary'] = {ne}", case))
    return bad


def classic_flyer_probe():
    """an old-style flyer (stream known only through describe_collect(), events yielded by collect()): collected events are
    never re-taken, so the numbers they used are committed -- a pause + resume right after ANY collect (also the first one,
    which creates the stream) must not hand them out again"""
    import time

    from bluesky.utils import Msg

    class Flyer:
        name = "flyer"
        parent = None

        def __init__(self, per_collect):
            self.n = 0
            self.per = per_collect

        def kickoff(self):
            st = _Status()
            st.finish(True)
            return st

        complete = kickoff

        def describe_collect(self):
            return {"flystream": {"x": {"source": "sim", "dtype": "number", "shape": []}}}

        def collect(self):
            for _ in range(self.per):
                self.n += 1
                now = time.time()
                yield {"data": {"x": self.n}, "timestamps": {"x": now}, "time": now}

    bad = []
    for per in (1, 2):
        for pause_after in (1, 2):
            for ncollect in (2, 3):
                fly = Flyer(per)

                def plan(fly=fly, pause_after=pause_after, ncollect=ncollect):
                    yield Msg("open_run")
                    yield Msg("checkpoint")
                    yield Msg("kickoff", fly, group="g")
                    yield Msg("wait", None, group="g")
                    yield Msg("complete", fly, group="h")
                    yield Msg("wait", None, group="h")
                    for i in range(1, ncollect + 1):
                        yield Msg("collect", fly)
                        if i == pause_after:
                            yield Msg("pause")
                    yield Msg("close_run")

                RE, docs = _engine()
                out = _run(RE, plan())
                rounds = 0
                while str(RE.state) == "paused" and rounds < 5:
                    rounds += 1
                    out = _run_call_catch(RE.resume)
                desc = {d["uid"]: d["name"] for n, d in docs if n == "descriptor"}
                seqs, vals = [], []
                for n, d in docs:
                    if n == "event" and desc.get(d["descriptor"]) == "flystream":
                        seqs.append(d["seq_num"])
                        vals.append(d["data"]["x"])
                    elif n == "event_page" and desc.get(d["descriptor"]) == "flystream":
                        seqs += list(d["seq_num"])
                        vals += list(d["data"]["x"])
                stops = [d for n, d in docs if n == "stop"]
                case = {"probe": "classic-flyer", "per_collect": per, "pause_after": pause_after, "ncollect": ncollect}
                if str(RE.state) != "idle" or len(stops) != 1:
                    bad.append(("classic-flyer:call-did-not-finish", f"{case}: state {RE.state!s}, {len(stops)} RunStop, last outcome {out[0]} {out[1]!r}", case))
                    continue
                if len(set(vals)) == len(vals) and seqs != list(range(1, len(seqs) + 1)):
                    bad.append(("classic-flyer:seq_num-reused-for-distinct-events", f"{ncollect} collects of {per} event(s), pause + resume after collect #{pause_after}: distinct values {vals} carry seq_nums {seqs}", case))
                ne = stops[0].get("num_events", {}).get("flystream")
                if len(set(vals)) == len(vals) and ne != len(vals):
                    bad.append(("classic-flyer:num_events-differs-from-events-emitted", f"{len(vals)} distinct events (seq_nums {seqs}) but RunStop.num_events['flystream'] = {ne}", case))
    return bad


def _run_call_catch(f):
    buf = io.StringIO()
    with contextlib.redirect_stdout(buf), contextlib.redirect_stderr(buf):
        try:
            f()
            return ("return", None)
        except BaseException as e:  # noqa
            return ("raise", e)


# ----------------------------------------------------------------------------- C24: relative moves on devices outside the Lean model
def relative_moves_probe():
    """relative plans on (a) a real axis that is a CHILD of an ophyd PseudoPositioner and (b) a Locatable device whose
    setpoint is exactly 0 while its readback differs: targets are initial setpoint + offset, and the device is commanded
    back to its initial position at the end, on success and on failure"""
    import bluesky.plan_stubs as bps
    import bluesky.plans as bp
    from bluesky.utils import Msg

    bad = []

    def sets_on(msgs, dev):
        return [float(m.args[0]) for m in msgs if m.command == "set" and m.obj is dev]

    # (a) child axis of a PseudoPositioner
    try:
        from ophyd.sim import hw as make_hw
    except Exception:  # noqa
        make_hw = None
    if make_hw is not None:
        for variant in ("rel_scan", "mvr", "rel_scan-fails"):
            hw = make_hw()
            RE, docs = _engine()
            msgs = []
            RE.msg_hook = msgs.append
            p = hw.pseudo3x3
            _run(RE, bps.mv(p.pseudo1, 5, p.pseudo2, 6, p.pseudo3, 7))
            msgs.clear()
            x0 = float(p.real1.position)
            case = {"probe": "relative-moves", "device": "pseudo3x3.real1", "variant": variant}
            if variant == "rel_scan":
                _run(RE, bp.rel_scan([hw.det], p.real1, -1, 1, 3))
                want = [x0 - 1, x0, x0 + 1, x0]
            elif variant == "mvr":
                _run(RE, bps.mvr(p.real1, 1.5))
                want = [x0 + 1.5]
            else:
                n = {"k": 0}

                def step(detectors, step, pos_cache, n=n):
                    n["k"] += 1
                    yield from bps.one_nd_step(detectors, step, pos_cache)
                    if n["k"] == 2:
                        raise RuntimeError("injected failure in step 2")

                _run(RE, bp.rel_scan([hw.det], p.real1, -1, 1, 3, per_step=step))
                want = [x0 - 1, x0, x0]
            got = sets_on(msgs, p.real1)
            if got != want:
                bad.append((f"relative-move-of-pseudo-positioner-child:{variant}", f"{variant} over pseudo3x3.real1 starting at {x0}: set values {got}, expected {want}", case))

    # (b) Locatable with setpoint 0 and a different readback
    class Loc:
        parent = None

        def __init__(self, name, setpoint, readback):
            self.name, self.sp, self.rb = name, setpoint, readback

        def set(self, value):
            self.sp = value
            self.rb = value + 0.25
            st = _Status()
            st.finish(True)
            return st

        async def locate(self):
            return {"setpoint": self.sp, "readback": self.rb}

        def read(self):
            return {self.name: {"value": self.rb, "timestamp": 0.0}}

        def describe(self):
            return {self.name: {"source": "sim", "dtype": "number", "shape": []}}

        def read_configuration(self):
            return {}

        def describe_configuration(self):
            return {}

    # (c) neither Locatable nor .position: the initial position is the HINTED field of read(), wherever it stands in the reading
    class Hinted:
        parent = None

        def __init__(self, name, pos, hinted_first):
            self.name, self.pos, self.first = name, pos, hinted_first
            self.hints = {"fields": [f"{name}_readback"]}

        def set(self, value):
            self.pos = value
            st = _Status()
            st.finish(True)
            return st

        def read(self):
            rb = (f"{self.name}_readback", {"value": self.pos, "timestamp": 0.0})
            dm = (f"{self.name}_demand", {"value": 0.0, "timestamp": 0.0})
            return dict([rb, dm] if self.first else [dm, rb])

        def describe(self):
            return {k: {"source": "sim", "dtype": "number", "shape": []} for k in self.read()}

        def read_configuration(self):
            return {}

        def describe_configuration(self):
            return {}

    for first in (True, False):
        for variant in ("mvr", "rel_scan"):
            m = Hinted("slide", 3.25, first)
            RE, docs = _engine()
            msgs = []
            RE.msg_hook = msgs.append
            if variant == "mvr":
                _run(RE, bps.mvr(m, 1.5))
                want = [3.25 + 1.5]
            else:
                _run(RE, bp.rel_scan([], m, -1, 1, 3))
                want = [2.25, 3.25, 4.25, 3.25]
            got = sets_on(msgs, m)
            if got != want:
                bad.append((f"relative-move-of-hinted-device:readback-{'first' if first else 'not-first'}-in-reading:{variant}", f"{variant} on a device without .position whose hinted readback (3.25) is {'the first' if first else 'NOT the first'} key of read() (a stale demand signal 0.0 is the other): set values {got}, expected {want}", {"probe": "relative-moves", "device": "hinted", "hinted_first": first, "variant": variant}))

    # (d) a composite device AND one of its own components are moved under reset_positions_wrapper: both are commanded back
    from bluesky.preprocessors import reset_positions_wrapper

    class Axis:
        def __init__(self, name, pos, parent=None):
            self.name, self.position, self.parent = name, pos, parent

        def set(self, value):
            self.position = value
            st = _Status()
            st.finish(True)
            return st

        def read(self):
            return {self.name: {"value": self.position, "timestamp": 0.0}}

        def describe(self):
            return {self.name: {"source": "sim", "dtype": "number", "shape": []}}

        def read_configuration(self):
            return {}

        def describe_configuration(self):
            return {}

    for ending in ("success", "failure"):
        changer = Axis("changer", 1)
        fine = Axis("changer_x", 0.5, parent=changer)
        RE, docs = _engine()
        msgs = []
        RE.msg_hook = msgs.append

        def body(ending=ending):
            yield Msg("set", changer, 3, group="g")
            yield Msg("set", fine, 0.75, group="g")
            yield Msg("wait", None, group="g")
            if ending == "failure":
                raise RuntimeError("plan failed")

        _run(RE, reset_positions_wrapper(body(), [changer, fine]))
        got_c, got_f = sets_on(msgs, changer), sets_on(msgs, fine)
        if got_c != [3.0, 1.0] or got_f != [0.75, 0.5]:
            bad.append((f"reset-skips-a-moved-component-of-a-moved-device:{ending}", f"reset_positions_wrapper over a composite device (1 -> 3) and its own component (0.5 -> 0.75), plan ends in {ending}: device sets {got_c} (expected [3, 1]), component sets {got_f} (expected [0.75, 0.5])", {"probe": "relative-moves", "device": "composite+component", "ending": ending}))

    for sp0 in (0, 0.0, 5.0, -2.0):
        for variant in ("mvr", "rel_scan"):
            m = Loc("loc", sp0, sp0 + 0.25)
            RE, docs = _engine()
            msgs = []
            RE.msg_hook = msgs.append
            if variant == "mvr":
                _run(RE, bps.mvr(m, 1.5))
                want = [sp0 + 1.5]
            else:
                _run(RE, bp.rel_scan([], m, -1, 1, 3))
                want = [sp0 - 1, sp0, sp0 + 1, sp0]
            got = sets_on(msgs, m)
            if got != want:
                bad.append((f"relative-move-of-locatable:setpoint-{sp0!r}:{variant}", f"{variant} on a Locatable with setpoint {sp0!r}, readback {sp0 + 0.25}: set values {got}, expected {want}", {"probe": "relative-moves", "device": "locatable", "setpoint": sp0, "variant": variant}))
    return bad


# ----------------------------------------------------------------------------- C09: a pending deferred pause and the NEXT plan
def stale_deferred_pause_probe():
    """a deferred pause requested after a plan's last checkpoint stays pending until the plan ends -- and is dropped when the
    next plan starts: the next plan is not paused at its first checkpoint by a request nobody made for it"""
    from bluesky.utils import Msg, RunEngineInterrupted

    bad = []
    for how in ("message", "request"):
        RE, docs = _engine()

        def plan1(how=how, RE=RE):
            yield Msg("checkpoint")
            yield Msg("null")
            if how == "message":
                yield Msg("pause", None, defer=True)
            else:
                RE.loop.call_soon(lambda: RE.loop.create_task(RE._request_pause_coro(True)))
                yield Msg("sleep", None, 0.05)
            yield Msg("null")

        def plan2():
            yield Msg("checkpoint")
            yield Msg("null")
            yield Msg("checkpoint")
            yield Msg("null")

        out1 = _run(RE, plan1())
        pending = bool(RE.deferred_pause_requested)
        case = {"probe": "stale-deferred-pause", "how": how}
        if out1[0] != "return" or not pending:
            bad.append(("deferred-request-not-pending-after-plan-without-checkpoint", f"first plan ended with {out1[0]} {type(out1[1]).__name__ if out1[1] else ''}; deferred_pause_requested = {pending}", case))
        # a request made while the engine is idle is refused (TransitionError) and changes nothing: still pending
        for defer in (False, True):
            r = _run_call_catch(lambda d=defer: RE.request_pause(d))
            if not bool(RE.deferred_pause_requested):
                bad.append(("pending-deferred-request-wiped-by-a-refused-request", f"plan 1 ended with a deferred pause pending ({how}); RE.request_pause(defer={defer}) on the idle engine ({r[0]} {type(r[1]).__name__ if r[1] else ''}) left deferred_pause_requested = False", case))
                break
        out2 = _run(RE, plan2())
        st = str(RE.state)
        if out2[0] != "return" or st != "idle":
            bad.append(("stale-deferred-pause-hits-the-next-plan", f"a deferred pause was requested ({how}) after the last checkpoint of plan 1, which completed; plan 2 (checkpoint, null, checkpoint, null) then ended with {out2[0]} {type(out2[1]).__name__ if out2[1] else ''}, state {st!r}", case))
            if st == "paused":
                with contextlib.suppress(Exception):
                    _run_call(RE.halt)
    return bad


def _run_call(f):
    buf = io.StringIO()
    with contextlib.redirect_stdout(buf), contextlib.redirect_stderr(buf):
        return f()


PROBES = {"busy-loop-trip": busy_loop_trip_probe, "stream-assets": stream_assets_probe, "settle-time": settle_time_probe, "configuration": configuration_probe, "monitor-options": monitor_options_probe, "wrapper-response": wrapper_response_probe, "inplan-subscription": inplan_subscription_probe, "equal-instances": equal_instances_probe, "raising-state-hook": raising_state_hook_probe, "replayed-group": replayed_group_probe, "noreplay-pause": noreplay_pause_probe, "second-call": second_call_probe, "nonresumable-wrapper": nonresumable_wrapper_probe, "external-assets": external_assets_probe, "metadata-store": metadata_store_probe, "dying-subscriber": dying_subscriber_probe, "classic-flyer": classic_flyer_probe, "nonrewindable-region": nonrewindable_region_probe, "relative-moves": relative_moves_probe, "stale-deferred-pause": stale_deferred_pause_probe, "reused-message": reused_message_probe, "locate": locate_probe, "run-wrapper-exception": run_wrapper_exception_probe}


def add_to(res, names):
    import common as C

    for n in names:
        res.count("impl-only-probe:" + n, 1)
        for sig, what, case in PROBES[n]():
            res.violations.append(C.Violation("re-probe:" + sig, "implementation-only probe (plain RunEngine): " + what, case))
    res.notes.append("implementation-only probes on a plain RunEngine: " + ", ".join(names))


def replay(data):
    import common as C

    case = data.get("case") or {}
    if case.get("probe") not in PROBES:
        return None
    res = C.Result()
    res.seen(case, True)
    for sig, what, c in PROBES[case["probe"]]():
        res.violations.append(C.Violation("re-probe:" + sig, what, c))
    return res
