"""Property oracles for C15, C16, C05, C45, stated directly on what the REAL engine did
(`bundler_common.observe`): the guard-level entries (message, canonical documents, device calls,
exception class, bundler API calls issued) -- no model involved.

Each oracle returns a list of (signature, what) pairs.
"""
from __future__ import annotations


def _devkeys(case):
    return {d["name"]: list(d["keys"]) for d in case["devs"]}


def _merge(readings):
    out = {}
    for r in readings:
        for k, v in r:
            out[k] = v
    return sorted([k, v] for k, v in out.items())


def _src_of_entry(e, doc):
    """which emitter produced an event (from the message in progress)"""
    c = e["msg"]["cmd"]
    if doc.get("note") is not None:
        return "interruption"
    if c == "save":
        return "bundle"
    if c == "fire":
        return "monitor"
    return c


# ------------------------------------------------------------------------------------------------ C15


def oracle_C15(case, obs):
    bad = []
    keys = _devkeys(case)
    run_open = False
    bundle = None  # {"name":, "reads": [(obj, reading)]}
    seen = []  # all docs so far
    stream_objs = {}  # per run: stream -> objects of its descriptor
    for e in obs["entries"]:
        m, docs, err = e["msg"], e["docs"], e["err"]
        c = m["cmd"]
        opnames = [o["op"] for o in e["ops"]]
        stream_objs_before = dict(stream_objs)
        for d in docs:
            if d["kind"] == "descriptor":
                stream_objs[d["stream"]] = sorted(o for o, _ in d["objKeys"])
        if c == "open_run" and err is None:
            run_open, bundle, stream_objs = True, None, {}
        elif c in ("close_run", "end") and any(d["kind"] == "stop" for d in docs):
            run_open, bundle = False, None
        elif c == "create":
            if not run_open:
                if err != "IllegalMessageSequence" or docs:
                    bad.append(("C15:create-without-run-accepted", f"create with no open run: err={err} docs={len(docs)}"))
            elif bundle is not None:
                if err != "IllegalMessageSequence":
                    bad.append(("C15:second-create-accepted", f"second create inside a bundle: err={err}"))
            elif err is None:
                bundle = {"name": m.get("name"), "reads": []}
        elif c == "read" and run_open and bundle is not None:
            prev = [o for o, _ in bundle["reads"]]
            clash = [o for o in prev if set(keys[o]) & set(keys[m["obj"]])]
            if clash:
                if err != "ValueError" or docs:
                    bad.append(("C15:collision-accepted", f"read {m['obj']} collides with {clash} but err={err} docs={len(docs)}"))
            elif err is None:
                bundle["reads"].append((m["obj"], m["reading"]))
        elif c in ("checkpoint", "configure") and run_open and bundle is not None:
            if err != "IllegalMessageSequence" or docs or e["calls"] or e["ops"]:
                bad.append((f"C15:{c}-in-bundle-accepted", f"{c} inside an open bundle: err={err} docs={len(docs)} calls={e['calls']}"))
        elif c == "drop":
            if docs:
                bad.append(("C15:drop-emits", f"drop emitted {[d['kind'] for d in docs]}"))
            if not run_open and err != "IllegalMessageSequence":
                bad.append(("C15:drop-without-run-accepted", f"err={err}"))
            if run_open:
                bundle = None
        elif c == "save":
            if not run_open:
                if err != "IllegalMessageSequence" or docs:
                    bad.append(("C15:save-without-run-accepted", f"err={err}"))
            elif bundle is None:
                if docs:
                    bad.append(("C15:save-without-create-emits", f"{[d['kind'] for d in docs]}"))
            else:
                evs = [d for d in docs if d["kind"] == "event"]
                if not bundle["reads"]:
                    if docs or err is not None:
                        bad.append(("C15:empty-save-not-silent", f"save with no readings: docs={[d['kind'] for d in docs]} err={err}"))
                else:
                    kinds = [d["kind"] for d in docs]
                    if kinds != ["descriptor"] * (len(kinds) - len(evs)) + ["event"] * len(evs) or len(evs) > 1:
                        bad.append(("C15:save-document-order", f"save emitted {kinds}"))
                    if err is None and len(evs) != 1:
                        bad.append(("C15:save-no-event", f"successful save with readings emitted {kinds}"))
                    # a well-formed bundle (readings = the devices' keys, objects = the stream's objects) must be saved
                    objs = sorted(o for o, _ in bundle["reads"])
                    wellformed = all(sorted(k for k, _ in r) == sorted(keys[o]) for o, r in bundle["reads"]) and len(set(objs)) == len(objs)
                    prior = stream_objs_before.get(bundle["name"])
                    if wellformed and (prior is None or prior == objs) and (err is not None or len(evs) != 1):
                        bad.append(("C15:wellformed-bundle-not-saved", f"bundle {bundle['name']} over {objs}: err={err} emitted {kinds}"))
                    for ev in evs:
                        want = _merge([r for _, r in bundle["reads"]])
                        if ev["data"] != want:
                            bad.append(("C15:event-data-mismatch", f"event data {ev['data']} != bundled readings {want}"))
                        ds = [d for d in seen + docs[: docs.index(ev)] if d["kind"] == "descriptor" and d["uid"] == ev["descriptor"]]
                        if not ds:
                            bad.append(("C15:descriptor-not-first", f"event references descriptor {ev['descriptor']} that was not emitted before it"))
                        else:
                            d = ds[0]
                            if d["stream"] != bundle["name"] or sorted(set(d["keys"]) - set(d["extKeys"])) != sorted(set(ev["keys"]) - set(d["extKeys"])):
                                bad.append(("C15:descriptor-keys-mismatch", f"descriptor {d['stream']} keys {d['keys']} vs event keys {ev['keys']} (bundle {bundle['name']})"))
                bundle = None
        if "rewind" in opnames:
            bundle = None  # a rewind cancels the open bundle
        seen += docs
    return bad


# ------------------------------------------------------------------------------------------------ C16


def oracle_C16(case, obs):
    """descriptor.configuration == what the device reported when the descriptor was made; after a
    configure message every stream containing the object gets a NEW descriptor (same data keys, new
    configuration) and every later event of those streams references it.  Device configuration is
    tracked from the configure messages AND the pokes (the harness knows both)."""
    bad = []
    devcfg = {d["name"]: sorted(map(list, d.get("cfg", []))) for d in case["devs"] if not d.get("isDet")}
    reported = {}  # per run: obj -> config the bundler last asked for (first caching or last configure)
    poked = set()  # objects whose configuration changed behind the engine's back since the bundler last read it
    current = {}  # stream -> current descriptor doc
    run_open = False
    for e in obs["entries"]:
        m, docs, err = e["msg"], e["docs"], e["err"]
        c = m["cmd"]
        if c == "open_run" and err is None:
            run_open, reported, current, poked = True, {}, {}, set()
        if c == "poke":
            devcfg[m["obj"]] = sorted(map(list, m["cfg"]))
            poked.add(m["obj"])
        if c == "configure" and err is None:
            devcfg[m["obj"]] = sorted(map(list, m["cfg"]))
            poked.discard(m["obj"])
            if run_open:
                # every stream containing the object must be re-described in this very step
                for n, d in list(current.items()):
                    if m["obj"] in [o for o, _ in d["objKeys"]]:
                        new = [x for x in docs if x["kind"] == "descriptor" and x["stream"] == n]
                        if len(new) != 1:
                            bad.append(("C16:configure-no-new-descriptor", f"configure {m['obj']}: stream {n} got {len(new)} new descriptors"))
                            continue
                        nd = new[0]
                        if nd["uid"] == d["uid"]:
                            bad.append(("C16:configure-same-descriptor", f"stream {n}"))
                        if nd["keys"] != d["keys"]:
                            bad.append(("C16:configure-changed-data-keys", f"stream {n}: {d['keys']} -> {nd['keys']}"))
                        got = dict((o, data) for o, data, _ in nd["config"]).get(m["obj"])
                        if got != devcfg[m["obj"]]:
                            bad.append(("C16:configure-stale-config", f"stream {n}: descriptor says {got}, device reports {devcfg[m['obj']]}"))
        for d in docs:
            if d["kind"] == "descriptor" and d["stream"] != "interruptions":
                for o, data, _ in d["config"]:
                    if o in devcfg and o not in poked and data != devcfg[o]:
                        bad.append(("C16:descriptor-config-not-current", f"descriptor of {d['stream']} records {o}: {data}, device reports {devcfg[o]}"))
                current[d["stream"]] = d
            if d["kind"] == "event" and d.get("note") is None:
                cur = current.get(d["stream"])
                if cur is not None and d["descriptor"] != cur["uid"]:
                    src = _src_of_entry(e, d)
                    bad.append((f"C16:{src}-event-references-old-descriptor", f"{src} event seq {d['seq']} of stream {d['stream']} references descriptor {d['descriptor']}, current is {cur['uid']}"))
        if c in ("close_run", "end") and any(d["kind"] == "stop" for d in docs):
            run_open = False
    return bad


# ------------------------------------------------------------------------------------------------ C05


def _items(obs):
    """per run -> stream -> list of items {start, stop, kind, entry, okop} in emission order"""
    runs = []
    cur = None
    for i, e in enumerate(obs["entries"]):
        for j, d in enumerate(e["docs"]):
            if d["kind"] == "start":
                cur = {"streams": {}, "stop": None, "rewinds": []}
                runs.append(cur)
            if cur is None:
                continue
            if d["kind"] == "event":
                cur["streams"].setdefault(d["stream"], []).append({"start": d["seq"], "stop": d["seq"] + 1, "kind": _src_of_entry(e, d), "entry": i, "ok": True})
            if d["kind"] == "stream_datum":
                cur["streams"].setdefault(d["stream"], []).append({"start": d["seqRange"][0], "stop": d["seqRange"][1], "kind": "collect", "entry": i, "ok": e["err"] is None and j not in e.get("failed", ()), "resource": d["resource"]})
            if d["kind"] == "stop":
                cur["stop"] = dict(d["numEvents"])
        if cur is not None and any(o["op"] == "rewind" for o in e["ops"]):
            cur["rewinds"].append(i)
    return runs


def oracle_C05(case, obs):
    bad = []
    for run in _items(obs):
        for n, items in run["streams"].items():
            ok_items = [x for x in items if x["ok"]]
            top = 1  # first unused number
            for x in ok_items:
                if x["start"] < 1 or x["start"] > top:
                    bad.append(("C05:gap", f"stream {n}: item [{x['start']},{x['stop']}) after numbers below {top}"))
                top = max(top, x["stop"])
            # unreplayed events never reuse a number, and nothing later reuses theirs
            for i, x in enumerate(ok_items):
                if x["kind"] == "bundle" or x["stop"] == x["start"]:
                    continue
                for y in ok_items[i + 1 :]:
                    if y["entry"] == x["entry"] and x["kind"] == "collect" and y["kind"] == "collect":
                        continue  # the stream datums of one collect share a range
                    if y["start"] < x["stop"]:
                        bad.append((f"C05:{x['kind']}-number-reused", f"stream {n}: {x['kind']} item [{x['start']},{x['stop']}) overlapped later by {y['kind']} [{y['start']},{y['stop']})"))
                        break
            # a repeat only for a bundle event, after a rewind
            for i, x in enumerate(ok_items):
                for y in ok_items[i + 1 :]:
                    if y["entry"] == x["entry"]:
                        continue
                    if y["start"] < x["stop"] and x["start"] < y["stop"]:
                        rew = [r for r in run["rewinds"] if x["entry"] < r <= y["entry"]]
                        if x["kind"] != "bundle" or not rew:
                            bad.append(("C05:repeat-without-rewind", f"stream {n}: [{x['start']},{x['stop']}) ({x['kind']}) repeated by [{y['start']},{y['stop']}) ({y['kind']}) rewinds between: {rew}"))
            # stream datum ranges are contiguous with the numbering: same-collect datums share the range
            by_entry = {}
            for x in ok_items:
                if x["kind"] == "collect":
                    by_entry.setdefault(x["entry"], []).append(x)
            for ent, xs in by_entry.items():
                if len({(x["start"]) for x in xs}) != 1:
                    bad.append(("C05:datum-ranges-differ", f"stream {n}: datums of one collect start at {[x['start'] for x in xs]}"))
            if run["stop"] is not None:
                N = run["stop"].get(n, 0)
                last_rewind = max(run["rewinds"]) if run["rewinds"] else -1
                after = [x["stop"] for x in ok_items if x["entry"] > last_rewind]
                before_b = [x["stop"] for x in ok_items if x["entry"] < last_rewind and x["kind"] == "bundle"]
                settled = not run["rewinds"] or max(after, default=1) >= max(before_b, default=1)
                if N + 1 > top:
                    bad.append(("C05:num_events-too-big", f"stream {n}: num_events {N} but numbers only up to {top - 1}"))
                if settled and N + 1 != top:
                    bad.append(("C05:num_events-mismatch", f"stream {n}: num_events {N}, emitted numbers 1..{top - 1}"))
                unrep = max([x["stop"] for x in ok_items if x["kind"] != "bundle"], default=1)
                if N + 1 < unrep:
                    bad.append(("C05:num_events-drops-unreplayed", f"stream {n}: num_events {N} < unreplayed numbers up to {unrep - 1}"))
        if run["stop"] is not None:
            for n, N in run["stop"].items():
                if N > 0 and n not in run["streams"]:
                    bad.append(("C05:num_events-without-events", f"stream {n}: num_events {N} but nothing emitted"))
    return bad


def oracle_C05_live(case, obs):
    """the numbering the property prescribes, stated operationally on each bundler's call history:
    an event / collected range starts at 1 + the number of data points of its stream that are still
    'live'; a rewind un-does exactly the bundle events taken since the last checkpoint (or since the
    last never-replayed event of that stream); num_events is the live count."""
    bad = []
    for b in obs["bundlers"]:
        live, perm = {}, {}
        for o in b["ops"]:
            name = o["op"]["op"]
            if name == "rewind":
                for n in list(live):
                    live[n] = perm.get(n, 0)
            datum_done = set()
            failed = set(o.get("failed", ()))
            for j, d in enumerate(o["docs"]):
                if d["kind"] == "event":
                    n = d["stream"]
                    if d["seq"] != live.get(n, 0) + 1:
                        bad.append(("C05:seq-not-next-live", f"stream {n}: {name} event has seq_num {d['seq']}, {live.get(n, 0)} data points are live"))
                    live[n] = live.get(n, 0) + 1
                    if name != "save":
                        perm[n] = live[n]
                elif d["kind"] == "stream_datum" and o["err"] is None and j not in failed:
                    n = d["stream"]
                    if n in datum_done:
                        continue  # the datums of one collect share the start; their widths are 0 or the common width
                    datum_done.add(n)
                    ranges = [x["seqRange"] for jj, x in enumerate(o["docs"]) if x["kind"] == "stream_datum" and x["stream"] == n and jj not in failed]
                    width = max(bb - a for a, bb in ranges)
                    for a, bb in ranges:
                        if a != live.get(n, 0) + 1:
                            bad.append(("C05:datum-not-next-live", f"stream {n}: datum range [{a},{bb}) but {live.get(n, 0)} data points are live"))
                        if bb - a not in (0, width):
                            bad.append(("C05:datum-widths-differ", f"stream {n}: datum range [{a},{bb}) in a collect of width {width}"))
                    live[n] = live.get(n, 0) + width
                    if width > 0:
                        perm[n] = live[n]
                elif d["kind"] == "stop":
                    for n, N in d["numEvents"]:
                        if N != live.get(n, 0):
                            bad.append(("C05:num_events-not-live-count", f"stream {n}: num_events {N}, live data points {live.get(n, 0)}"))
            if name == "resetCheckpoint" or (name in ("unmonitor", "closeRun") and o["err"] is None):
                for n in live:
                    perm[n] = live[n]
    return bad


# ------------------------------------------------------------------------------------------------ C45


def oracle_C45(case, obs):
    """for runs whose collects all obeyed the contract (no scripted misbehaviour, no failed collect):
    per stream the datum seq ranges tile [1, N+1) contiguously, index ranges of each resource are
    contiguous from the detector's first reported index, detectors collected together report the same
    stop index = min of their indices, and num_events = total frames declared."""
    bad = []
    isdet = {d["name"] for d in case["devs"] if d.get("isDet")}
    if not isdet:
        return bad
    index = {n: 0 for n in isdet}
    runs = []
    cur = None
    for e in obs["entries"]:
        m = e["msg"]
        if m["cmd"] == "advance":
            index[m["obj"]] += m["n"]
        for d in e["docs"]:
            if d["kind"] == "start":
                cur = {"collects": [], "stop": None, "clean": True, "events": set()}
                runs.append(cur)
        if cur is None:
            continue
        if m["cmd"] in ("collect",) and cur is not None:
            if e["err"] is not None or any(m.get("mis", [])) and any(x for x in m.get("mis", [])):
                cur["clean"] = False
            datums = [d for d in e["docs"] if d["kind"] == "stream_datum"]
            cur["collects"].append({"objs": m["objs"], "datums": datums, "indices": {o: index[o] for o in m["objs"]}, "err": e["err"]})
        if m["cmd"] == "end" and any(d["kind"] == "stream_datum" for d in e["docs"]):
            cur["clean"] = False  # backstop collect: not a scripted cadence
        for d in e["docs"]:
            if d["kind"] == "event":
                cur["events"].add(d["stream"])
            if d["kind"] == "stop":
                cur["stop"] = dict(d["numEvents"])
    for run in runs:
        if not run["clean"]:
            continue
        seq_top = {}
        idx_top = {}
        frames = {}
        for c in run["collects"]:
            if not c["datums"]:
                continue
            n = c["datums"][0]["stream"]
            starts = {tuple(d["seqRange"]) for d in c["datums"]}
            if len(starts) != 1:
                bad.append(("C45:seq-ranges-differ-within-collect", f"{sorted(starts)}"))
                continue
            a, b = c["datums"][0]["seqRange"]
            if n in run["events"]:
                continue  # stream shared with events: numbering is C05's business
            if a != seq_top.get(n, 1):
                bad.append(("C45:seq-range-not-contiguous", f"stream {n}: range [{a},{b}) after numbers below {seq_top.get(n, 1)}"))
            seq_top[n] = b
            stops = set()
            for d in c["datums"]:
                r = d["resource"]
                i0, i1 = d["idxRange"]
                if r in idx_top and i0 != idx_top[r]:
                    bad.append(("C45:index-range-not-contiguous", f"{r}: [{i0},{i1}) after {idx_top[r]}"))
                if r not in idx_top and i0 != 0:
                    bad.append(("C45:index-range-not-from-zero", f"{r}: first range [{i0},{i1})"))
                idx_top[r] = i1
                stops.add(i1)
                if i1 - i0 != b - a:
                    bad.append(("C45:seq-index-width-mismatch", f"{r}: idx [{i0},{i1}) seq [{a},{b})"))
            if len(c["objs"]) > 1:
                want = min(c["indices"].values())
                if stops != {want}:
                    bad.append(("C45:not-min-index", f"collected {c['objs']} at indices {c['indices']}: datums stop at {sorted(stops)}, min is {want}"))
            frames[n] = frames.get(n, 0) + (b - a)
        if run["stop"] is not None:
            for n, f in frames.items():
                if run["stop"].get(n) != f:
                    bad.append(("C45:num_events-vs-frames", f"stream {n}: num_events {run['stop'].get(n)} but {f} frames declared"))
    return bad


def oracle_C05_all(case, obs):
    return oracle_C05(case, obs) + oracle_C05_live(case, obs)


ORACLES = {"C15": oracle_C15, "C16": oracle_C16, "C05": oracle_C05_all, "C45": oracle_C45}
