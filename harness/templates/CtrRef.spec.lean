--@@IMPORT BlueskyVerif.Lemmas.C05Mono
/-- the counter dictionaries of a bundler state -/
def ctrOf (s : BState) : Ctr := { seq := s.seq, copy := s.seqCopy, cleared := s.cpCleared }

/-- side invariant: every stream with a counter, and every stream in `_descriptors`, is registered
    with event_model (`ComposeDescriptor.streams`); the dictionaries have distinct keys -/
structure Sub (s : BState) : Prop where
  seq : ∀ n, ahas s.seq n = true → ahas s.streams n = true
  desc : ∀ n ∈ akeys s.descriptors, ahas s.streams n = true
  nds : (akeys s.seq).Nodup
  ndc : (akeys s.seqCopy).Nodup

def proj (s : BState) := (s.seq, s.seqCopy, s.cpCleared, s.log, s.streams, akeys s.descriptors)

/-- refinement: what the operation logged is a valid run of the abstract counter machine from the
    counters before to the counters after (nothing pending at the end) -/
def Keeps (_w : World) (s s' : BState) : Prop :=
  Sub s → Sub s' ∧ ∃ nl, s'.log = s.log ++ nl ∧ runP (ctrOf s, none) nl = some (ctrOf s', none)

theorem Keeps.refl (w : World) (s : BState) : Keeps w s s := fun h => ⟨h, [], by simp, rfl⟩

theorem Keeps.trans (w : World) (a b c : BState) (h1 : Keeps w a b) (h2 : Keeps w b c) : Keeps w a c := by
  intro ha
  obtain ⟨hb, l1, g1, r1⟩ := h1 ha
  obtain ⟨hc, l2, g2, r2⟩ := h2 hb
  refine ⟨hc, l1 ++ l2, by rw [g2, g1, List.append_assoc], ?_⟩
  rw [runP_append, r1]; exact r2

theorem Keeps.of_rfl (w : World) {s s' : BState} (h : proj s' = proj s) : Keeps w s s' := by
  unfold proj at h
  simp only [Prod.mk.injEq] at h
  obtain ⟨h1, h2, h3, h4, h5, h6⟩ := h
  intro hs
  refine ⟨⟨by rw [h1, h5]; exact hs.seq, by rw [h6, h5]; exact hs.desc, by rw [h1]; exact hs.nds,
    by rw [h2]; exact hs.ndc⟩, [], by simp [h4], ?_⟩
  simp only [runP, ctrOf, h1, h2, h3]

/-- one logged micro-event -/
theorem Keeps.of_ev (w : World) {s s' : BState} (ev : CEv) (h1 : s'.log = s.log ++ [ev])
    (h2 : Sub s → Sub s' ∧ stepP (ctrOf s, none) ev = some (ctrOf s', none)) : Keeps w s s' := by
  intro hs
  obtain ⟨a, b⟩ := h2 hs
  exact ⟨a, [ev], h1, by simp only [runP, b]⟩

/-- what `ComposeEvent` (+ emit) does to the counters -/
theorem composeEvent_ctr (s : BState) (n : Name) (u : Nat) (dk ext : List Key) (data : List (Key × Val))
    (src : Src) (note : Option String) :
    ((composeEvent s n u dk ext data src note).err ≠ none ∧
      proj (composeEvent s n u dk ext data src note).st = proj s) ∨
    ((composeEvent s n u dk ext data src note).err = none ∧ ∃ c, aget s.seq n = some c ∧
      (composeEvent s n u dk ext data src note).st.seq = aset s.seq n (c + 1) ∧
      (composeEvent s n u dk ext data src note).st.log = s.log ++ [.emit n c (src == .bundle)] ∧
      (composeEvent s n u dk ext data src note).st.seqCopy = s.seqCopy ∧
      (composeEvent s n u dk ext data src note).st.cpCleared = s.cpCleared ∧
      (composeEvent s n u dk ext data src note).st.streams = s.streams ∧
      (composeEvent s n u dk ext data src note).st.descriptors = s.descriptors) := by
  unfold composeEvent
  split
  · exact Or.inl ⟨by simp, rfl⟩
  · rename_i c hc
    split
    · exact Or.inl ⟨by simp, rfl⟩
    · split
      · exact Or.inl ⟨by simp, rfl⟩
      · exact Or.inr ⟨rfl, c, hc, by simp [eventIncrement], rfl, rfl, rfl, rfl, rfl⟩

theorem sub_seq_aset {s s' : BState} (n : Name) (v : Nat) (hs : Sub s) (hn : ahas s.streams n = true)
    (h1 : s'.seq = aset s.seq n v) (h2 : s'.seqCopy = s.seqCopy) (h3 : s'.streams = s.streams)
    (h4 : s'.descriptors = s.descriptors) : Sub s' := by
  refine ⟨?_, by rw [h4, h3]; exact hs.desc, by rw [h1]; exact nodup_akeys_aset _ _ _ hs.nds, by rw [h2]; exact hs.ndc⟩
  intro m hm
  rw [h3]
  rw [h1] at hm
  by_cases e : n = m
  · subst e; exact hn
  · simp only [ahas, aget_aset_ne _ _ _ _ e] at hm; exact hs.seq m hm

/-- a replayable (bundle) event: `ComposeEvent` alone refines one `emit` micro-event -/
theorem composeEvent_bundle (w : World) (s : BState) (n : Name) (u : Nat) (dk ext : List Key)
    (data : List (Key × Val)) (note : Option String) :
    Keeps w s (composeEvent s n u dk ext data .bundle note).st := by
  rcases composeEvent_ctr s n u dk ext data .bundle note with ⟨_, hp⟩ | ⟨_, c, hc, h1, h2, h3, h4, h5, h6⟩
  · exact Keeps.of_rfl w hp
  · refine Keeps.of_ev w (.emit n c true) h2 (fun hs => ⟨?_, ?_⟩)
    · exact sub_seq_aset n (c + 1) hs (hs.seq n (by simp [ahas, hc])) h1 h3 h5 h6
    · simp [stepP, ctrOf, hc, h1, h3, h4]

/-- a never-replayed event followed by its commit refines `emit; commit` -/
theorem composeEvent_commit (w : World) (s : BState) (n : Name) (u : Nat) (dk ext : List Key)
    (data : List (Key × Val)) (src : Src) (note : Option String) (hsrc : (src == Src.bundle) = false) :
    Keeps w s ((composeEvent s n u dk ext data src note).andThen fun s' => Res.ok (commit s' n)).st := by
  rcases composeEvent_ctr s n u dk ext data src note with ⟨he, hp⟩ | ⟨he, c, hc, h1, h2, h3, h4, h5, h6⟩
  · cases hee : (composeEvent s n u dk ext data src note).err with
    | none => exact absurd hee he
    | some e => rw [Res.andThen_of_err _ _ _ hee]; exact Keeps.of_rfl w hp
  · rw [Res.andThen_st_ok _ _ he]
    simp only [Res.ok_st]
    generalize composeEvent s n u dk ext data src note = r at *
    have hg : aget r.st.seq n = some (c + 1) := by rw [h1]; exact aget_aset_same _ _ _
    intro hs
    have hs1 : Sub r.st := sub_seq_aset n (c + 1) hs (hs.seq n (by simp [ahas, hc])) h1 h3 h5 h6
    unfold commit
    simp only [hg]
    refine ⟨⟨hs1.seq, hs1.desc, hs1.nds, nodup_akeys_aset _ _ _ hs1.ndc⟩, [.emit n c false, .commit n], ?_, ?_⟩
    · simp only [h2, hsrc]; simp
    · simp [runP, stepP, ctrOf, hc, h1, h3, h4]

--@@OVERRIDE keeps_commit
theorem keeps_commit (w : World) (s : BState) (n : Name) : Keeps w s (commit s n) := by
  unfold commit
  split
  · rename_i c hc
    refine Keeps.of_ev w (.commit n) rfl (fun hs => ⟨⟨hs.seq, hs.desc, hs.nds, nodup_akeys_aset _ _ _ hs.ndc⟩, ?_⟩)
    simp [stepP, ctrOf, hc]
  · rename_i hc
    refine Keeps.of_ev w (.commit n) rfl (fun hs => ⟨⟨hs.seq, hs.desc, hs.nds, hs.ndc⟩, ?_⟩)
    simp [stepP, ctrOf, hc]

--@@OVERRIDE keeps_resetCp
theorem keeps_resetCp (w : World) (s : BState) : Keeps w s (resetCp s) := by
  refine Keeps.of_ev w .reset rfl (fun hs => ⟨⟨hs.seq, hs.desc, hs.nds, nodup_akeys_aupdate _ _ hs.ndc⟩, ?_⟩)
  simp [stepP, ctrOf, resetCp]

--@@OVERRIDE keeps_clearCp
theorem keeps_clearCp (w : World) (s : BState) : Keeps w s (clearCp s) := by
  refine Keeps.of_ev w .clear rfl (fun hs => ⟨⟨hs.seq, hs.desc, hs.nds, List.nodup_nil⟩, ?_⟩)
  simp [stepP, ctrOf, clearCp]

--@@OVERRIDE keeps_saveEvent
theorem keeps_saveEvent (w : World) (s : BState) (n : Name) (rd : List (Key × Val)) : Keeps w s (saveEvent s n rd).st := by
  unfold saveEvent
  split
  · exact Keeps.refl w s
  · exact composeEvent_bundle w s n _ _ _ _ _

--@@OVERRIDE keeps_monitorUpdate
theorem keeps_monitorUpdate (w : World) (s : BState) (o : Obj) (rd : Reading) : Keeps w s (monitorUpdate s o rd).st := by
  unfold monitorUpdate
  split
  · exact Keeps.refl w s
  · rename_i m hm
    simp only [monitorCommits, if_true]
    unfold monitorCompose
    simp only [monitorUsesCurrentDescriptor, if_true]
    split
    · exact Keeps.refl w s
    · exact composeEvent_commit w s m.name _ _ _ _ .monitor _ rfl

--@@OVERRIDE keeps_recordInterruption
theorem keeps_recordInterruption (w : World) (s : BState) (c : String) : Keeps w s (recordInterruption s c).st := by
  unfold recordInterruption
  split
  · exact Keeps.refl w s
  · simp only [interruptionCommits, if_true]
    exact composeEvent_commit w s "interruptions" _ _ _ _ .interruption _ rfl

--@@OVERRIDE keeps_prepareStream
theorem keeps_prepareStream (w : World) (s : BState) (n : Name) (objsDks : List (Obj × List Key)) :
    Keeps w s (prepareStream w s n objsDks).st := by
  -- storing the descriptor of a registered stream whose counter exists
  have store : ∀ (s1 : BState) (uid : Nat), ahas s1.streams n = true → ahas s1.seq n = true →
      Keeps w s1 (prepareFinish w s1 n objsDks uid) := by
    intro s1 uid hst hsq
    unfold prepareFinish
    simp only [hsq, if_true]
    intro hs
    refine ⟨⟨hs.seq, ?_, hs.nds, hs.ndc⟩, [], by simp [prepareStore], rfl⟩
    intro m hm
    simp only [prepareStore, akeys_aset] at hm
    split at hm
    · exact hs.desc m hm
    · rcases List.mem_append.1 hm with h | h
      · exact hs.desc m h
      · simp at h; subst h; exact hst
  unfold prepareStream
  split
  · exact Keeps.refl w s
  · split
    · rename_i ks hks
      have hst : ahas s.streams n = true := by simp [ahas, hks]
      split
      · keeps_basic
      · by_cases hsq : ahas s.seq n = true
        · refine Keeps.trans w _ _ _ ?_ (store _ _ hst hsq)
          keeps_basic
        · -- registered stream without a counter: both dictionaries get 1
          have hsq' : ahas s.seq n = false := by simpa using hsq
          unfold prepareFinish
          simp only [hsq', Bool.false_eq_true, if_false, Res.ok_st]
          refine Keeps.of_ev w (.ensure n) rfl (fun hs => ⟨⟨?_, ?_, nodup_akeys_aset _ _ _ hs.nds,
            nodup_akeys_aset _ _ _ hs.ndc⟩, ?_⟩)
          · intro m hm
            simp only [prepareStore] at hm ⊢
            by_cases e : n = m
            · subst e; exact hst
            · simp only [ahas, aget_aset_ne _ _ _ _ e] at hm; exact hs.seq m hm
          · intro m hm
            simp only [prepareStore, akeys_aset] at hm ⊢
            split at hm
            · exact hs.desc m hm
            · rcases List.mem_append.1 hm with h | h
              · exact hs.desc m h
              · simp at h; subst h; exact hst
          · simp [stepP, ctrOf, hsq', prepareStore, firstSeq]
    · rename_i hks
      -- a new stream: registered, counter := 1, then stored
      refine Keeps.trans w _ _ _ ?_ (store _ _ ?_ ?_)
      · refine Keeps.of_ev w (.newStream n) rfl (fun hs => ?_)
        have hsq : ahas s.seq n = false := by
          cases h : ahas s.seq n with
          | false => rfl
          | true => have := hs.seq n h; simp [ahas, hks] at this
        refine ⟨⟨?_, ?_, nodup_akeys_aset _ _ _ hs.nds, hs.ndc⟩, ?_⟩
        · intro m hm
          simp only at hm ⊢
          by_cases e : n = m
          · subst e; simp [ahas]
          · simp only [ahas, aget_aset_ne _ _ _ _ e] at hm ⊢; exact hs.seq m hm
        · intro m hm
          simp only at hm ⊢
          by_cases e : n = m
          · subst e; simp [ahas]
          · simp only [ahas, aget_aset_ne _ _ _ _ e]; exact hs.desc m hm
        · simp [stepP, ctrOf, hsq, firstSeq]
      · simp [ahas]
      · simp [ahas]

--@@OVERRIDE keeps_reprepareOne
theorem keeps_reprepareOne (w : World) (s : BState) (o : Obj) (n : Name) :
    Keeps w s (reprepareOne w s o n).st := by
  unfold reprepareOne
  split
  · exact Keeps.refl w s
  · split
    · refine Keeps.trans w _ _ _ ?_ (keeps_prepareStream w _ n _)
      intro hs
      refine ⟨⟨hs.seq, ?_, hs.nds, hs.ndc⟩, [], by simp, rfl⟩
      intro m hm
      exact hs.desc m ((akeys_aerase_sublist _ _).subset hm)
    · exact Keeps.refl w s
