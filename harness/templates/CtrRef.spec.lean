--@@IMPORT BlueskyVerif.Lemmas.C05Mono
--@@IMPORT BlueskyVerif.Lemmas.BundlerKeepsCtr
/-- the counter dictionaries of a bundler state -/
def ctrOf (s : BState) : Ctr := { seq := s.seq, copy := s.seqCopy, cleared := s.cpCleared }

/-- side invariant: every stream with a counter, and every stream in `_descriptors`, is registered
    with event_model (`ComposeDescriptor.streams`); the dictionaries have distinct keys -/
structure Sub (s : BState) : Prop where
  seq : ∀ n, ahas s.seq n = true → ahas s.streams n = true
  desc : ∀ n ∈ akeys s.descriptors, ahas s.streams n = true
  copy : ∀ n, ahas s.seqCopy n = true → ahas s.streams n = true
  nds : (akeys s.seq).Nodup
  ndc : (akeys s.seqCopy).Nodup

def proj (s : BState) := (s.seq, s.seqCopy, s.cpCleared, s.log, s.streams, akeys s.descriptors)

/-- refinement: what the operation logged is a valid run of the abstract counter machine from the
    counters before to the counters after (nothing pending at the end) -/
def Keeps (_w : World) (s s' : BState) : Prop :=
  Sub s → Sub s' ∧ ∃ nl, s'.log = s.log ++ nl ∧ runP (ctrOf s, none) nl = some (ctrOf s', none)

theorem Keeps.refl (w : World) (s : BState) : Keeps w s s := fun h => ⟨h, [], by simp, rfl⟩

theorem Keeps.trans (w : World) (a b c : BState) (h1 : Keeps w a b) (h2 : Keeps w b c) : Keeps w a c := by
  intro ha
  obtain ⟨hb, l1, g1, r1⟩ := h1 ha
  obtain ⟨hc, l2, g2, r2⟩ := h2 hb
  refine ⟨hc, l1 ++ l2, by rw [g2, g1, List.append_assoc], ?_⟩
  rw [runP_append, r1]; exact r2

theorem Keeps.of_rfl (w : World) {s s' : BState} (h : proj s' = proj s) : Keeps w s s' := by
  unfold proj at h
  simp only [Prod.mk.injEq] at h
  obtain ⟨h1, h2, h3, h4, h5, h6⟩ := h
  intro hs
  refine ⟨⟨by rw [h1, h5]; exact hs.seq, by rw [h6, h5]; exact hs.desc, by rw [h2, h5]; exact hs.copy,
    by rw [h1]; exact hs.nds, by rw [h2]; exact hs.ndc⟩, [], by simp [h4], ?_⟩
  simp only [runP, ctrOf, h1, h2, h3]

/-- one logged micro-event -/
theorem Keeps.of_ev (w : World) {s s' : BState} (ev : CEv) (h1 : s'.log = s.log ++ [ev])
    (h2 : Sub s → Sub s' ∧ stepP (ctrOf s, none) ev = some (ctrOf s', none)) : Keeps w s s' := by
  intro hs
  obtain ⟨a, b⟩ := h2 hs
  exact ⟨a, [ev], h1, by simp only [runP, b]⟩

/-- what `ComposeEvent` (+ emit) does to the counters -/
theorem composeEvent_ctr (s : BState) (n : Name) (u : Nat) (dk ext : List Key) (data : List (Key × Val))
    (src : Src) (note : Option String) :
    ((composeEvent s n u dk ext data src note).err ≠ none ∧
      proj (composeEvent s n u dk ext data src note).st = proj s) ∨
    ((composeEvent s n u dk ext data src note).err = none ∧ ∃ c, aget s.seq n = some c ∧
      (composeEvent s n u dk ext data src note).st.seq = aset s.seq n (c + 1) ∧
      (composeEvent s n u dk ext data src note).st.log = s.log ++ [.emit n c (src == .bundle)] ∧
      (composeEvent s n u dk ext data src note).st.seqCopy = s.seqCopy ∧
      (composeEvent s n u dk ext data src note).st.cpCleared = s.cpCleared ∧
      (composeEvent s n u dk ext data src note).st.streams = s.streams ∧
      (composeEvent s n u dk ext data src note).st.descriptors = s.descriptors) := by
  unfold composeEvent
  split
  · exact Or.inl ⟨by simp, rfl⟩
  · rename_i c hc
    split
    · exact Or.inl ⟨by simp, rfl⟩
    · split
      · exact Or.inl ⟨by simp, rfl⟩
      · exact Or.inr ⟨rfl, c, hc, by simp [eventIncrement], rfl, rfl, rfl, rfl, rfl⟩

theorem sub_seq_aset {s s' : BState} (n : Name) (v : Nat) (hs : Sub s) (hn : ahas s.streams n = true)
    (h1 : s'.seq = aset s.seq n v) (h2 : s'.seqCopy = s.seqCopy) (h3 : s'.streams = s.streams)
    (h4 : s'.descriptors = s.descriptors) : Sub s' := by
  refine ⟨?_, by rw [h4, h3]; exact hs.desc, by rw [h2, h3]; exact hs.copy,
    by rw [h1]; exact nodup_akeys_aset _ _ _ hs.nds, by rw [h2]; exact hs.ndc⟩
  intro m hm
  rw [h3]
  rw [h1] at hm
  by_cases e : n = m
  · subst e; exact hn
  · simp only [ahas, aget_aset_ne _ _ _ _ e] at hm; exact hs.seq m hm

/-- a replayable (bundle) event: `ComposeEvent` alone refines one `emit` micro-event -/
theorem composeEvent_bundle (w : World) (s : BState) (n : Name) (u : Nat) (dk ext : List Key)
    (data : List (Key × Val)) (note : Option String) :
    Keeps w s (composeEvent s n u dk ext data .bundle note).st := by
  rcases composeEvent_ctr s n u dk ext data .bundle note with ⟨_, hp⟩ | ⟨_, c, hc, h1, h2, h3, h4, h5, h6⟩
  · exact Keeps.of_rfl w hp
  · refine Keeps.of_ev w (.emit n c true) h2 (fun hs => ⟨?_, ?_⟩)
    · exact sub_seq_aset n (c + 1) hs (hs.seq n (by simp [ahas, hc])) h1 h3 h5 h6
    · simp [stepP, ctrOf, hc, h1, h3, h4]

/-- a never-replayed event followed by its commit refines `emit; commit` -/
theorem composeEvent_commit (w : World) (s : BState) (n : Name) (u : Nat) (dk ext : List Key)
    (data : List (Key × Val)) (src : Src) (note : Option String) (hsrc : (src == Src.bundle) = false) :
    Keeps w s ((composeEvent s n u dk ext data src note).andThen fun s' => Res.ok (commit s' n)).st := by
  rcases composeEvent_ctr s n u dk ext data src note with ⟨he, hp⟩ | ⟨he, c, hc, h1, h2, h3, h4, h5, h6⟩
  · cases hee : (composeEvent s n u dk ext data src note).err with
    | none => exact absurd hee he
    | some e => rw [Res.andThen_of_err _ _ _ hee]; exact Keeps.of_rfl w hp
  · rw [Res.andThen_st_ok _ _ he]
    simp only [Res.ok_st]
    generalize composeEvent s n u dk ext data src note = r at *
    have hg : aget r.st.seq n = some (c + 1) := by rw [h1]; exact aget_aset_same _ _ _
    intro hs
    have hs1 : Sub r.st := sub_seq_aset n (c + 1) hs (hs.seq n (by simp [ahas, hc])) h1 h3 h5 h6
    unfold commit
    simp only [hg]
    have hcp : ∀ m, ahas (aset r.st.seqCopy n (c + 1)) m = true → ahas r.st.streams m = true := by
      intro m hm
      by_cases e : n = m
      · subst e; exact hs1.seq n (by simp [ahas, hg])
      · simp only [ahas, aget_aset_ne _ _ _ _ e] at hm; exact hs1.copy m hm
    refine ⟨⟨hs1.seq, hs1.desc, hcp, hs1.nds, nodup_akeys_aset _ _ _ hs1.ndc⟩, [.emit n c false, .commit n], ?_, ?_⟩
    · simp only [h2, hsrc]; simp
    · simp [runP, stepP, ctrOf, hc, h1, h3, h4]

/-- entries of a dictionary with distinct keys all agree with the dictionary -/
theorem filter_changed_nil (m : List (Name × Nat)) (h : (akeys m).Nodup) :
    m.filter (fun kv => aget m kv.1 != some kv.2) = [] := by
  apply List.filter_eq_nil_iff.2
  intro kv hkv
  have := aget_of_mem_nodup m kv.1 kv.2 h hkv
  simp [this]

/-- after `d[n] = v'` exactly the entry of `n` may differ from the old dictionary -/
theorem filter_changed_aset (m : List (Name × Nat)) (n : Name) (v v' : Nat) (h : (akeys m).Nodup)
    (hv : aget m n = some v) :
    (aset m n v').filter (fun kv => aget m kv.1 != some kv.2) = if v' = v then [] else [(n, v')] := by
  induction m with
  | nil => simp at hv
  | cons q t ih =>
    obtain ⟨k0, v0⟩ := q
    simp only [akeys, List.map_cons, List.nodup_cons] at h
    by_cases h0 : k0 = n
    · subst h0
      simp only [aget, if_true, Option.some.injEq] at hv; subst hv
      simp only [aset, if_true, List.filter_cons, aget, if_true]
      have ht : t.filter (fun kv => (if k0 = kv.1 then some v0 else aget t kv.1) != some kv.2) = [] := by
        apply List.filter_eq_nil_iff.2
        intro kv hkv
        have hne : k0 ≠ kv.1 := fun e => h.1 (e ▸ List.mem_map.2 ⟨kv, hkv, rfl⟩)
        have := aget_of_mem_nodup t kv.1 kv.2 h.2 hkv
        simp [hne, this]
      rw [ht]
      by_cases e : v' = v0
      · subst e; simp
      · have e' : ¬ v0 = v' := fun h => e h.symm
        simp [e, e']
    · simp only [aget, h0, if_false] at hv
      simp only [aset, h0, if_false, List.filter_cons, aget, if_true]
      have hrec := ih h.2 hv
      have hne : n ∉ akeys t → False := fun hn => by
        have := (aget_none_iff_not_mem_keys t n).2 hn; rw [this] at hv; cases hv
      have hfil : (aset t n v').filter (fun kv => (if k0 = kv.1 then some v0 else aget t kv.1) != some kv.2) =
          (aset t n v').filter (fun kv => aget t kv.1 != some kv.2) := by
        apply List.filter_congr
        intro kv hkv
        have hne : k0 ≠ kv.1 := by
          intro e
          rcases mem_aset _ _ _ _ hkv with h1 | h1
          · exact h.1 (e ▸ List.mem_map.2 ⟨kv, h1, rfl⟩)
          · rw [h1] at e; exact h0 e
        simp [hne]
      simp only [bne_self_eq_false, Bool.false_eq_true, if_false]
      rw [hfil, hrec]

/-- what `collect`'s inner part does to the counters: nothing, or one `bump` -/
theorem collectInner_ctr (w : World) (s : BState) (objs : List Obj) (nm : Option Name) (mis : List Mis) :
    proj (collectInner w s objs nm mis).st = proj s ∨
    ∃ n c d, aget s.seq n = some c ∧ (collectInner w s objs nm mis).st.seq = aset s.seq n (c + d) ∧
      (collectInner w s objs nm mis).st.log = s.log ++ [.bump n c d] ∧
      (collectInner w s objs nm mis).st.seqCopy = s.seqCopy ∧
      (collectInner w s objs nm mis).st.cpCleared = s.cpCleared ∧
      (collectInner w s objs nm mis).st.streams = s.streams ∧
      akeys (collectInner w s objs nm mis).st.descriptors = akeys s.descriptors := by
  unfold collectInner
  split
  · exact Or.inl rfl
  · split
    · exact Or.inl rfl
    · split
      · left
        exact (KeepsCtr.keeps_andThen w _ _ _ (KeepsCtr.keeps_ensureCached w _ _ true) (fun s' => rfl))
      · exact Or.inl rfl
    · rename_i n hn
      unfold collectInto
      simp only
      generalize hp : packExternalAssets _ n _ = p
      have hpk : proj p.st = proj s := by
        rw [← hp]
        exact KeepsCtr.keeps_packExternalAssets w _ n _
      unfold proj at hpk
      simp only [Prod.mk.injEq] at hpk
      obtain ⟨k1, k2, k3, k4, k5, k6⟩ := hpk
      unfold collectBump
      split
      · left; unfold proj; simp [k1, k2, k3, k4, k5, k6]
      · split
        · left; unfold proj; simp [k1, k2, k3, k4, k5, k6]
        · rename_i c hc
          right
          simp only [collectAdvancesByDifference, if_true, Res.ok_st]
          exact ⟨n, c, p.prev, by rw [← k1]; exact hc, by rw [k1], by rw [k4], k2, k3, k5, k6⟩

--@@OVERRIDE keeps_commit
theorem keeps_commit (w : World) (s : BState) (n : Name) : Keeps w s (commit s n) := by
  unfold commit
  split
  · rename_i c hc
    refine Keeps.of_ev w (.commit n) rfl (fun hs => ⟨⟨hs.seq, hs.desc, ?_, hs.nds, nodup_akeys_aset _ _ _ hs.ndc⟩, ?_⟩)
    · intro m hm
      by_cases e : n = m
      · subst e; exact hs.seq n (by simp [ahas, hc])
      · simp only [ahas, aget_aset_ne _ _ _ _ e] at hm; exact hs.copy m hm
    · simp [stepP, ctrOf, hc]
  · rename_i hc
    refine Keeps.of_ev w (.commit n) rfl (fun hs => ⟨⟨hs.seq, hs.desc, hs.copy, hs.nds, hs.ndc⟩, ?_⟩)
    simp [stepP, ctrOf, hc]

--@@OVERRIDE keeps_resetCp
theorem keeps_resetCp (w : World) (s : BState) : Keeps w s (resetCp s) := by
  refine Keeps.of_ev w .reset rfl (fun hs => ⟨⟨hs.seq, hs.desc, ?_, hs.nds, nodup_akeys_aupdate _ _ hs.ndc⟩, ?_⟩)
  · intro m hm
    simp only [resetCp, ahas, aget_aupdate _ _ _ hs.nds] at hm
    cases hq : aget s.seq m with
    | some v => exact hs.seq m (by simp [ahas, hq])
    | none => simp only [hq] at hm; exact hs.copy m hm
  · simp [stepP, ctrOf, resetCp]

--@@OVERRIDE keeps_clearCp
theorem keeps_clearCp (w : World) (s : BState) : Keeps w s (clearCp s) := by
  refine Keeps.of_ev w .clear rfl (fun hs => ⟨⟨hs.seq, hs.desc, fun m hm => by simp [clearCp, ahas] at hm, hs.nds, List.nodup_nil⟩, ?_⟩)
  simp [stepP, ctrOf, clearCp]

--@@OVERRIDE keeps_saveEvent
theorem keeps_saveEvent (w : World) (s : BState) (n : Name) (rd : List (Key × Val)) : Keeps w s (saveEvent s n rd).st := by
  unfold saveEvent
  split
  · exact Keeps.refl w s
  · exact composeEvent_bundle w s n _ _ _ _ _

--@@OVERRIDE keeps_monitorUpdate
theorem keeps_monitorUpdate (w : World) (s : BState) (o : Obj) (rd : Reading) : Keeps w s (monitorUpdate s o rd).st := by
  unfold monitorUpdate
  split
  · exact Keeps.refl w s
  · rename_i m hm
    simp only [monitorCommits, if_true]
    unfold monitorCompose
    simp only [monitorUsesCurrentDescriptor, if_true]
    split
    · exact Keeps.refl w s
    · exact composeEvent_commit w s m.name _ _ _ _ .monitor _ rfl

--@@OVERRIDE keeps_recordInterruption
theorem keeps_recordInterruption (w : World) (s : BState) (c : String) : Keeps w s (recordInterruption s c).st := by
  unfold recordInterruption
  split
  · exact Keeps.refl w s
  · simp only [interruptionCommits, if_true]
    exact composeEvent_commit w s "interruptions" _ _ _ _ .interruption _ rfl

--@@OVERRIDE keeps_prepareStream
theorem keeps_prepareStream (w : World) (s : BState) (n : Name) (objsDks : List (Obj × List Key)) :
    Keeps w s (prepareStream w s n objsDks).st := by
  -- storing the descriptor of a registered stream whose counter exists
  have store : ∀ (s1 : BState) (uid : Nat), ahas s1.streams n = true → ahas s1.seq n = true →
      Keeps w s1 (prepareFinish w s1 n objsDks uid) := by
    intro s1 uid hst hsq
    unfold prepareFinish
    simp only [hsq, if_true]
    intro hs
    refine ⟨⟨hs.seq, ?_, hs.copy, hs.nds, hs.ndc⟩, [], by simp [prepareStore], rfl⟩
    intro m hm
    simp only [prepareStore, akeys_aset] at hm
    split at hm
    · exact hs.desc m hm
    · rcases List.mem_append.1 hm with h | h
      · exact hs.desc m h
      · simp at h; subst h; exact hst
  unfold prepareStream
  split
  · exact Keeps.refl w s
  · split
    · rename_i ks hks
      have hst : ahas s.streams n = true := by simp [ahas, hks]
      split
      · keeps_basic
      · by_cases hsq : ahas s.seq n = true
        · refine Keeps.trans w _ _ _ ?_ (store _ _ hst hsq)
          keeps_basic
        · -- registered stream without a counter: both dictionaries get 1
          have hsq' : ahas s.seq n = false := by simpa using hsq
          unfold prepareFinish
          simp only [hsq', Bool.false_eq_true, if_false, Res.ok_st]
          refine Keeps.of_ev w (.ensure n) rfl (fun hs => ⟨⟨?_, ?_, ?_, nodup_akeys_aset _ _ _ hs.nds,
            nodup_akeys_aset _ _ _ hs.ndc⟩, ?_⟩)
          · intro m hm
            simp only [prepareStore] at hm ⊢
            by_cases e : n = m
            · subst e; exact hst
            · simp only [ahas, aget_aset_ne _ _ _ _ e] at hm; exact hs.seq m hm
          · intro m hm
            simp only [prepareStore, akeys_aset] at hm ⊢
            split at hm
            · exact hs.desc m hm
            · rcases List.mem_append.1 hm with h | h
              · exact hs.desc m h
              · simp at h; subst h; exact hst
          · intro m hm
            simp only [prepareStore] at hm ⊢
            by_cases e : n = m
            · subst e; exact hst
            · simp only [ahas, aget_aset_ne _ _ _ _ e] at hm; exact hs.copy m hm
          · simp [stepP, ctrOf, hsq', prepareStore, firstSeq]
    · rename_i hks
      -- a new stream: registered, counter := 1, then stored
      refine Keeps.trans w _ _ _ ?_ (store _ _ ?_ ?_)
      · refine Keeps.of_ev w (.newStream n) rfl (fun hs => ?_)
        have hsq : ahas s.seq n = false := by
          cases h : ahas s.seq n with
          | false => rfl
          | true => have := hs.seq n h; simp [ahas, hks] at this
        refine ⟨⟨?_, ?_, ?_, nodup_akeys_aset _ _ _ hs.nds, hs.ndc⟩, ?_⟩
        · intro m hm
          simp only at hm ⊢
          by_cases e : n = m
          · subst e; simp [ahas]
          · simp only [ahas, aget_aset_ne _ _ _ _ e] at hm ⊢; exact hs.seq m hm
        · intro m hm
          simp only at hm ⊢
          by_cases e : n = m
          · subst e; simp [ahas]
          · simp only [ahas, aget_aset_ne _ _ _ _ e]; exact hs.desc m hm
        · intro m hm
          simp only at hm ⊢
          by_cases e : n = m
          · subst e; simp [ahas]
          · simp only [ahas, aget_aset_ne _ _ _ _ e]; exact hs.copy m hm
        · simp [stepP, ctrOf, hsq, firstSeq]
      · simp [ahas]
      · simp [ahas]

--@@OVERRIDE keeps_reprepareOne
theorem keeps_reprepareOne (w : World) (s : BState) (o : Obj) (n : Name) :
    Keeps w s (reprepareOne w s o n).st := by
  unfold reprepareOne
  split
  · exact Keeps.refl w s
  · split
    · refine Keeps.trans w _ _ _ ?_ (keeps_prepareStream w _ n _)
      intro hs
      refine ⟨⟨hs.seq, ?_, hs.copy, hs.nds, hs.ndc⟩, [], by simp, rfl⟩
      intro m hm
      exact hs.desc m ((akeys_aerase_sublist _ _).subset hm)
    · exact Keeps.refl w s

--@@OVERRIDE keeps_closeRunTail
theorem keeps_closeRunTail (w : World) (s : BState) (e r : String) : Keeps w s (closeRunTail s e r).st := by
  have aux : ∀ (s1 : BState), proj s1 = proj s → Keeps w s { resetCp s1 with runOpen := false } := by
    intro s1 h
    exact Keeps.trans w s s1 _ (Keeps.of_rfl w h)
      (Keeps.trans w s1 (resetCp s1) _ (keeps_resetCp w s1) (Keeps.of_rfl w rfl))
  unfold closeRunTail
  split
  · exact Keeps.refl w s
  · simp only [Res.ok_st]
    split
    · exact aux _ rfl
    · exact Keeps.of_rfl w rfl

--@@OVERRIDE keeps_collect
theorem keeps_collect (w : World) (s : BState) (objs : List Obj) (nm : Option Name) (mis : List Mis) :
    Keeps w s (collect w s objs nm mis).st := by
  unfold collect
  simp only [collectCommitsChanged, if_true]
  intro hs
  rcases collectInner_ctr w s objs nm mis with hp | ⟨n, c, d, hc, h1, h2, h3, h4, h5, h6⟩
  · -- nothing changed: nothing is committed
    unfold proj at hp
    simp only [Prod.mk.injEq] at hp
    obtain ⟨k1, k2, k3, k4, k5, k6⟩ := hp
    have : commitChanged s.seq (collectInner w s objs nm mis).st = (collectInner w s objs nm mis).st := by
      unfold commitChanged
      rw [k1, filter_changed_nil s.seq hs.nds]; rfl
    rw [this]
    exact Keeps.of_rfl w (by unfold proj; simp [k1, k2, k3, k4, k5, k6]) hs
  · generalize (collectInner w s objs nm mis).st = t at *
    have hsub : Sub t := ⟨by
        intro m hm
        rw [h5]; rw [h1] at hm
        by_cases e : n = m
        · subst e; exact hs.seq n (by simp [ahas, hc])
        · simp only [ahas, aget_aset_ne _ _ _ _ e] at hm; exact hs.seq m hm,
      by rw [h6, h5]; exact hs.desc, by rw [h3, h5]; exact hs.copy, by rw [h1]; exact nodup_akeys_aset _ _ _ hs.nds,
      by rw [h3]; exact hs.ndc⟩
    unfold commitChanged
    rw [h1, filter_changed_aset s.seq n c (c + d) hs.nds hc]
    by_cases hd : d = 0
    · subst hd
      simp only [Nat.add_zero, if_true, List.map_nil, List.foldl_nil]
      refine ⟨hsub, [.bump n c 0], h2, ?_⟩
      simp [runP, stepP, ctrOf, hc, h1, h3, h4]
    · have hne : ¬ (c + d = c) := by omega
      simp only [hne, if_false, List.map_cons, List.map_nil, List.foldl_cons, List.foldl_nil]
      have hg : aget t.seq n = some (c + d) := by rw [h1]; exact aget_aset_same _ _ _
      unfold commit
      simp only [hg]
      have hcp : ∀ m, ahas (aset t.seqCopy n (c + d)) m = true → ahas t.streams m = true := by
        intro m hm
        by_cases e : n = m
        · subst e; exact hsub.seq n (by simp [ahas, hg])
        · simp only [ahas, aget_aset_ne _ _ _ _ e] at hm; exact hsub.copy m hm
      refine ⟨⟨hsub.seq, hsub.desc, hcp, hsub.nds, nodup_akeys_aset _ _ _ hsub.ndc⟩, [.bump n c d, .commit n], ?_, ?_⟩
      · simp [h2]
      · simp [runP, stepP, ctrOf, hc, h1, h3, h4, hd]
