def proj (s : BState) := s.descriptors

/-- the stream names in `_descriptors` stay pairwise distinct -/
def Keeps (_w : World) (s s' : BState) : Prop := (akeys s.descriptors).Nodup → (akeys s'.descriptors).Nodup

theorem Keeps.refl (w : World) (s : BState) : Keeps w s s := fun h => h
theorem Keeps.trans (w : World) (a b c : BState) (h1 : Keeps w a b) (h2 : Keeps w b c) : Keeps w a c :=
  fun h => h2 (h1 h)
theorem Keeps.of_rfl (w : World) {s s' : BState} (h : proj s' = proj s) : Keeps w s s' := by
  unfold proj at h; unfold Keeps; rw [h]; exact fun h => h

--@@OVERRIDE keeps_prepareStore
theorem keeps_prepareStore (w : World) (s : BState) (n : Name) (objsDks : List (Obj × List Key)) (uid : Nat) :
    Keeps w s (prepareStore w s n objsDks uid) := fun h => nodup_akeys_aset _ _ _ h

--@@OVERRIDE keeps_reprepareOne
theorem keeps_reprepareOne (w : World) (s : BState) (o : Obj) (n : Name) :
    Keeps w s (reprepareOne w s o n).st := by
  unfold reprepareOne
  split
  · exact Keeps.refl w s
  · split
    · refine Keeps.trans w _ _ _ ?_ (keeps_prepareStream w _ n _)
      exact fun h => nodup_akeys_aerase _ _ h
    · exact Keeps.refl w s
