--@@IMPORT BlueskyVerif.Lemmas.C05Mono
/-- the numbers an emitted event document carries: (stream, seq_num, seq_num + 1, is a bundle event) -/
def evItem (d : Doc) : Option (Name × Nat × Nat × Bool) :=
  if d.kind = .event then
    match d.stream, d.seq with
    | some n, some k => some (n, k, k + 1, d.src == .bundle)
    | _, _ => none
  else none

/-- the same for the ghost log: only `ComposeEvent` entries -/
def emitItem : CEv → Option (Name × Nat × Nat × Bool)
  | .emit n k r => some (n, k, k + 1, r)
  | _ => none

def proj (s : BState) := (s.out, s.log)

/-- output and log grow together: the event documents emitted are, in order, the `emit` entries logged;
    no `rewind` entry is logged -/
def Keeps (_w : World) (s s' : BState) : Prop :=
  ∃ nd nl, s'.out = s.out ++ nd ∧ s'.log = s.log ++ nl ∧ nd.filterMap evItem = nl.filterMap emitItem ∧
    ∀ ev ∈ nl, ev.isRewind = false

theorem Keeps.refl (w : World) (s : BState) : Keeps w s s := ⟨[], [], by simp, by simp, rfl, by simp⟩

theorem Keeps.trans (w : World) (a b c : BState) (h1 : Keeps w a b) (h2 : Keeps w b c) : Keeps w a c := by
  obtain ⟨d1, l1, o1, g1, e1, r1⟩ := h1
  obtain ⟨d2, l2, o2, g2, e2, r2⟩ := h2
  refine ⟨d1 ++ d2, l1 ++ l2, by rw [o2, o1, List.append_assoc], by rw [g2, g1, List.append_assoc], ?_, ?_⟩
  · rw [List.filterMap_append, List.filterMap_append, e1, e2]
  · intro ev hev
    rcases List.mem_append.1 hev with h | h
    · exact r1 ev h
    · exact r2 ev h

theorem Keeps.of_rfl (w : World) {s s' : BState} (h : proj s' = proj s) : Keeps w s s' := by
  unfold proj at h
  simp only [Prod.mk.injEq] at h
  exact ⟨[], [], by simp [h.1], by simp [h.2], rfl, by simp⟩

theorem Keeps.of_log (w : World) {s s' : BState} (nl : List CEv) (h1 : s'.out = s.out) (h2 : s'.log = s.log ++ nl)
    (h3 : nl.filterMap emitItem = []) (h4 : ∀ ev ∈ nl, ev.isRewind = false) : Keeps w s s' :=
  ⟨[], nl, by simp [h1], h2, by simp [h3], h4⟩

theorem Keeps.of_out (w : World) {s s' : BState} (nd : List Doc) (h1 : s'.out = s.out ++ nd) (h2 : s'.log = s.log)
    (h3 : nd.filterMap evItem = []) : Keeps w s s' :=
  ⟨nd, [], h1, by simp [h2], by simp [h3], by simp⟩

theorem Keeps.of_both (w : World) {s s' : BState} (nd : List Doc) (nl : List CEv) (h1 : s'.out = s.out ++ nd)
    (h2 : s'.log = s.log ++ nl) (h3 : nd.filterMap evItem = nl.filterMap emitItem)
    (h4 : ∀ ev ∈ nl, ev.isRewind = false) : Keeps w s s' := ⟨nd, nl, h1, h2, h3, h4⟩

macro "keeps_basic" : tactic =>
  `(tactic| first
    | exact (Keeps.of_rfl _ rfl)
    | exact Keeps.of_log _ _ rfl rfl (by simp [emitItem]) (by simp [CEv.isRewind])
    | exact Keeps.of_out _ _ rfl rfl (by simp [evItem, descDoc])
    | exact Keeps.of_both _ _ _ rfl rfl (by simp [evItem, emitItem]) (by simp [CEv.isRewind]))
