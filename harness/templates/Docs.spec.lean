/-- a descriptor document for `(n, d)` is among `docs` -/
def Documented (docs : List Doc) (n : Name) (d : Desc) : Prop :=
  ∃ doc ∈ docs, doc.kind = .descriptor ∧ doc.uid = d.uid ∧ doc.stream = some n ∧ doc.keys = d.keys ∧
    doc.extKeys = d.ext ∧ doc.config = d.config ∧ doc.objKeys = d.objs ∧ doc.src = .prepare

theorem Documented.mono {docs docs' : List Doc} {n : Name} {d : Desc} (h : Documented docs n d)
    (hs : ∀ x ∈ docs, x ∈ docs') : Documented docs' n d := by
  obtain ⟨doc, hm, hr⟩ := h
  exact ⟨doc, hs doc hm, hr⟩

def proj (s : BState) := (s.out, s.descriptors)

/-- the output only grows, and every descriptor in the later state was already there or is
    documented by the documents emitted in between -/
def Keeps (_w : World) (s s' : BState) : Prop :=
  ∃ new, s'.out = s.out ++ new ∧ ∀ nd ∈ s'.descriptors, nd ∈ s.descriptors ∨ Documented new nd.1 nd.2

theorem Keeps.refl (w : World) (s : BState) : Keeps w s s := ⟨[], by simp, fun _ h => Or.inl h⟩

theorem Keeps.trans (w : World) (a b c : BState) (h1 : Keeps w a b) (h2 : Keeps w b c) : Keeps w a c := by
  obtain ⟨n1, e1, d1⟩ := h1
  obtain ⟨n2, e2, d2⟩ := h2
  refine ⟨n1 ++ n2, by rw [e2, e1, List.append_assoc], fun nd hm => ?_⟩
  rcases d2 nd hm with h | h
  · rcases d1 nd h with h | h
    · exact Or.inl h
    · exact Or.inr (h.mono (by intro x hx; simp; exact Or.inl hx))
  · exact Or.inr (h.mono (by intro x hx; simp; exact Or.inr hx))

theorem Keeps.of_rfl (w : World) {s s' : BState} (h : proj s' = proj s) : Keeps w s s' := by
  unfold proj at h
  simp only [Prod.mk.injEq] at h
  exact ⟨[], by simp [h.1], fun nd hm => Or.inl (h.2 ▸ hm)⟩

/-- emitting documents without touching `_descriptors` -/
theorem Keeps.of_out (w : World) {s s' : BState} (l : List Doc) (h1 : s'.out = s.out ++ l)
    (h2 : s'.descriptors = s.descriptors) : Keeps w s s' :=
  ⟨l, h1, fun nd hm => Or.inl (h2 ▸ hm)⟩

--@@OVERRIDE keeps_composeEvent
theorem keeps_composeEvent (w : World) (s : BState) (n : Name) (u : Nat) (dk ext : List Key) (data : List (Key × Val))
    (src : Src) (note : Option String) : Keeps w s (composeEvent s n u dk ext data src note).st := by
  unfold composeEvent
  split
  · exact Keeps.refl w s
  · split
    · exact (Keeps.of_rfl w rfl)
    · split
      · exact (Keeps.of_rfl w rfl)
      · exact Keeps.of_out w _ rfl rfl

--@@OVERRIDE keeps_prepareStore
theorem keeps_prepareStore (w : World) (s : BState) (n : Name) (objsDks : List (Obj × List Key)) (uid : Nat) :
    Keeps w s (prepareStore w s n objsDks uid) := by
  refine ⟨[descDoc s n (mkDesc w s objsDks uid)], rfl, fun nd hm => ?_⟩
  rcases mem_aset _ _ _ _ hm with h | h
  · exact Or.inl h
  · subst h
    exact Or.inr ⟨_, List.mem_singleton.2 rfl, rfl, rfl, rfl, rfl, rfl, rfl, rfl, rfl⟩

--@@OVERRIDE keeps_closeRunTail
theorem keeps_closeRunTail (w : World) (s : BState) (e r : String) : Keeps w s (closeRunTail s e r).st := by
  unfold closeRunTail
  split
  · exact Keeps.refl w s
  · simp only [Res.ok_st]
    split
    · refine Keeps.trans w _ _ _ ?_ (Keeps.of_rfl w rfl)
      refine Keeps.trans w _ _ _ ?_ (keeps_resetCp w _)
      exact Keeps.of_out w _ rfl rfl
    · exact Keeps.of_out w _ rfl rfl

--@@OVERRIDE keeps_reprepareOne
theorem keeps_reprepareOne (w : World) (s : BState) (o : Obj) (n : Name) :
    Keeps w s (reprepareOne w s o n).st := by
  unfold reprepareOne
  split
  · exact Keeps.refl w s
  · split
    · refine Keeps.trans w _ _ _ ?_ (keeps_prepareStream w _ n _)
      exact ⟨[], by simp, fun nd hm => Or.inl (mem_aerase _ _ _ hm)⟩
    · exact Keeps.refl w s

--@@OVERRIDE keeps_packOne
theorem keeps_packOne (w : World) (n : Name) (d : Desc) (p : PackSt) (a : Asset) (s : BState)
    (h : Keeps w s p.st) : Keeps w s (packOne n d p a).st := by
  unfold packOne
  split
  · exact h
  · cases a with
    | resource uid key =>
      simp only
      split
      · exact h
      · split
        · exact Keeps.trans w _ _ _ h (Keeps.of_rfl w rfl)
        · exact Keeps.trans w _ _ _ h (Keeps.of_out w _ rfl rfl)
    | datum uid resource descFilled start stop seqFilled =>
      simp only
      split
      · exact h
      · split
        · exact h
        · split
          · exact h
          · split
            · exact h
            · split
              · exact h
              · exact Keeps.trans w _ _ _ h (Keeps.of_out w _ rfl rfl)
