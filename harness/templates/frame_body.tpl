theorem keeps_andThen (w : World) (s : BState) (r : Res) (f : BState → Res)
    (h1 : Keeps w s r.st) (h2 : ∀ s', Keeps w s' (f s').st) : Keeps w s (r.andThen f).st :=
  Res.andThen_rel (Keeps w) (Keeps.refl w) (Keeps.trans w) s r f h1 h2

theorem keeps_foldl (w : World) {α : Type} (l : List α) (g : Res → α → Res) (r : Res) (s : BState)
    (h0 : Keeps w s r.st) (hg : ∀ (r : Res) (a : α), Keeps w s r.st → Keeps w s (g r a).st) :
    Keeps w s (l.foldl g r).st := by
  induction l generalizing r with
  | nil => exact h0
  | cons a t ih => exact ih (g r a) (hg r a h0)

theorem keeps_foldl_state (w : World) {α : Type} (l : List α) (g : BState → α → BState) (s0 s : BState)
    (h0 : Keeps w s s0) (hg : ∀ (a : BState) (x : α), Keeps w a (g a x)) :
    Keeps w s (l.foldl g s0) := by
  induction l generalizing s0 with
  | nil => exact h0
  | cons a t ih => exact ih (g s0 a) (Keeps.trans w _ _ _ h0 (hg s0 a))

theorem keeps_commit (w : World) (s : BState) (n : Name) : Keeps w s (commit s n) := by
  unfold commit; split <;> exact (Keeps.of_rfl w rfl)

theorem keeps_resetCp (w : World) (s : BState) : Keeps w s (resetCp s) := (Keeps.of_rfl w rfl)
theorem keeps_clearCp (w : World) (s : BState) : Keeps w s (clearCp s) := (Keeps.of_rfl w rfl)

theorem keeps_resetR (w : World) (s : BState) : Keeps w s (resetR s).st := keeps_resetCp w s

theorem keeps_composeEvent (w : World) (s : BState) (n : Name) (u : Nat) (dk ext : List Key) (data : List (Key × Val))
    (src : Src) (note : Option String) : Keeps w s (composeEvent s n u dk ext data src note).st := by
  unfold composeEvent
  split
  · exact Keeps.refl w s
  · split
    · exact (Keeps.of_rfl w rfl)
    · split <;> exact (Keeps.of_rfl w rfl)

theorem keeps_cacheReadConfig (w : World) (s : BState) (o : Obj) : Keeps w s (cacheReadConfig w s o).st := by
  unfold cacheReadConfig; split <;> exact (Keeps.of_rfl w rfl)

theorem keeps_cacheDescribeConfig (w : World) (s : BState) (o : Obj) :
    Keeps w s (cacheDescribeConfig w s o).st := by
  unfold cacheDescribeConfig; split <;> exact (Keeps.of_rfl w rfl)

theorem keeps_cacheDescribe (w : World) (s : BState) (o : Obj) (c : Bool) :
    Keeps w s (cacheDescribe w s o c).st := by
  unfold cacheDescribe
  split
  · exact Keeps.refl w s
  · split
    · exact Keeps.refl w s
    · split
      · exact (Keeps.of_rfl w rfl)
      · split
        · exact (Keeps.of_rfl w rfl)
        · exact Keeps.refl w s

theorem keeps_cacheConfig (w : World) (s : BState) (o : Obj) : Keeps w s (cacheConfig w s o).st := by
  unfold cacheConfig
  split
  · apply keeps_andThen
    · exact keeps_cacheDescribeConfig w s o
    · intro s''; exact keeps_cacheReadConfig w s'' o
  · exact Keeps.refl w s

theorem keeps_ensureCached (w : World) (s : BState) (o : Obj) (c : Bool) :
    Keeps w s (ensureCached w s o c).st := by
  unfold ensureCached
  apply keeps_andThen
  · exact keeps_cacheDescribe w s o c
  · intro s'; exact keeps_cacheConfig w s' o

theorem keeps_ensureAll (w : World) (s : BState) (objs : List Obj) (c : Bool) :
    Keeps w s (ensureAll w s objs c).st := by
  unfold ensureAll
  apply keeps_foldl w
  · exact Keeps.refl w s
  · intro r a h
    exact keeps_andThen w s r _ h (fun s' => keeps_ensureCached w s' a c)

theorem keeps_prepareStream_finish (w : World) (n : Name) (objsDks : List (Obj × List Key)) (s : BState)
    (uid : Nat) (dk : List Key) (cfg : List (Obj × CfgBlock)) (pre : List CEv) :
    Keeps w s (prepareStream.finish w n objsDks s uid dk cfg pre).st := by
  unfold prepareStream.finish
  simp only
  split <;> exact (Keeps.of_rfl w rfl)

theorem keeps_prepareStream (w : World) (s : BState) (n : Name) (objsDks : List (Obj × List Key)) :
    Keeps w s (prepareStream w s n objsDks).st := by
  unfold prepareStream
  simp only
  split
  · exact Keeps.refl w s
  · split
    · split
      · exact (Keeps.of_rfl w rfl)
      · refine Keeps.trans w _ _ _ ?_ (keeps_prepareStream_finish w n objsDks _ _ _ _ _)
        exact (Keeps.of_rfl w rfl)
    · refine Keeps.trans w _ _ _ ?_ (keeps_prepareStream_finish w n objsDks _ _ _ _ _)
      exact (Keeps.of_rfl w rfl)

theorem keeps_dropMonitors (w : World) (s : BState) : Keeps w s (dropMonitors s).st := (Keeps.of_rfl w rfl)

theorem keeps_closeRun (w : World) (s : BState) (e r : Option String) : Keeps w s (closeRun s e r).st := by
  unfold closeRun
  split
  · exact Keeps.refl w s
  · apply keeps_andThen w
    · exact keeps_dropMonitors w s
    · intro s'
      simp only
      split
      · exact Keeps.refl w s'
      · apply keeps_andThen w
        · exact (Keeps.of_rfl w rfl)
        · intro s''
          apply keeps_andThen w
          · split
            · exact keeps_resetR w s''
            · exact Keeps.refl w s''
          · intro s3; exact (Keeps.of_rfl w rfl)

theorem keeps_monitor (w : World) (s : BState) (o : Obj) (n : Name) : Keeps w s (monitor w s o n).st := by
  unfold monitor
  split
  · exact Keeps.refl w s
  · apply keeps_andThen w
    · exact keeps_ensureCached w s o false
    · intro s'
      apply keeps_andThen w
      · exact keeps_prepareStream w s' n _
      · intro s''
        split
        · exact Keeps.refl w s''
        · exact (Keeps.of_rfl w rfl)

theorem keeps_monitorCompose (w : World) (s : BState) (m : MonRec) (rd : Reading) :
    Keeps w s (monitorCompose s m rd).st := by
  unfold monitorCompose
  split
  · split
    · exact Keeps.refl w s
    · exact keeps_composeEvent ..
  · exact keeps_composeEvent ..

theorem keeps_monitorUpdate (w : World) (s : BState) (o : Obj) (rd : Reading) : Keeps w s (monitorUpdate s o rd).st := by
  unfold monitorUpdate
  split
  · exact Keeps.refl w s
  · split
    · exact keeps_monitorCompose ..
    · split
      · exact Keeps.trans w _ _ _ (keeps_monitorCompose w s _ rd) (keeps_commit ..)
      · exact keeps_monitorCompose ..

theorem keeps_unmonitor (w : World) (s : BState) (o : Obj) : Keeps w s (unmonitor s o).st := by
  unfold unmonitor
  split
  · exact Keeps.refl w s
  · apply keeps_andThen w
    · exact (Keeps.of_rfl w rfl)
    · intro s'
      split
      · exact keeps_resetR w s'
      · exact Keeps.refl w s'

theorem keeps_recordInterruption (w : World) (s : BState) (c : String) : Keeps w s (recordInterruption s c).st := by
  unfold recordInterruption
  split
  · exact Keeps.refl w s
  · simp only
    split
    · exact keeps_composeEvent ..
    · split
      · exact Keeps.trans w _ _ _ (keeps_composeEvent ..) (keeps_commit ..)
      · exact keeps_composeEvent ..

theorem keeps_reprepareAll (w : World) (s : BState) (o : Obj) : Keeps w s (reprepareAll w s o).st := by
  unfold reprepareAll
  apply keeps_foldl
  · exact Keeps.refl w s
  · intro r nd h
    refine keeps_andThen w s r _ h ?_
    intro s''
    split
    · exact Keeps.refl w s''
    · split
      · refine Keeps.trans w _ _ _ ?_ (keeps_prepareStream w _ nd.1 _)
        exact (Keeps.of_rfl w rfl)
      · exact Keeps.refl w s''

theorem keeps_configure (w : World) (s : BState) (o : Obj) : Keeps w s (configure w s o).st := by
  unfold configure
  apply keeps_andThen
  · exact keeps_cacheReadConfig w s o
  · intro s'; exact keeps_reprepareAll w s' o

theorem keeps_declareStream (w : World) (s : BState) (n : Name) (objs : List Obj) (c : Bool) :
    Keeps w s (declareStream w s n objs c).st := by
  unfold declareStream
  simp only
  apply keeps_andThen w
  · exact keeps_ensureAll w s _ c
  · intro s'
    split
    · exact Keeps.refl w s'
    · refine Keeps.trans w _ _ _ ?_ (keeps_prepareStream w _ n _)
      exact (Keeps.of_rfl w rfl)

theorem keeps_packOne (w : World) (n : Name) (d : Desc) (p : PackSt) (a : Asset) (s : BState)
    (h : Keeps w s p.res.st) : Keeps w s (packOne n d p a).res.st := by
  unfold packOne
  split
  · exact h
  · cases a with
    | resource uid key =>
      simp only
      split
      · exact h
      · split
        · exact Keeps.trans w _ _ _ h (Keeps.of_rfl w rfl)
        · exact Keeps.trans w _ _ _ h (Keeps.of_rfl w rfl)
    | datum uid resource descFilled start stop seqFilled =>
      simp only
      split
      · exact h
      · split
        · exact h
        · split
          · exact h
          · split
            · exact h
            · split
              · exact h
              · exact h

theorem keeps_packExternalAssets (w : World) (s : BState) (n : Name) (assets : List Asset) :
    Keeps w s (packExternalAssets s n assets).res.st := by
  unfold packExternalAssets
  split
  · exact Keeps.refl w s
  · rename_i d hd
    have : ∀ (l : List Asset) (p : PackSt), Keeps w s p.res.st → Keeps w s (l.foldl (packOne n d) p).res.st := by
      intro l
      induction l with
      | nil => intro p h; exact h
      | cons a t ih => intro p h; exact ih _ (keeps_packOne w n d p a s h)
    have h0 := this assets { res := Res.ok s } (Keeps.refl w s)
    simp only
    split
    · exact h0
    · split
      · exact h0
      · exact h0

theorem keeps_collectInner (w : World) (s : BState) (objs : List Obj) (nm : Option Name) (mis : List Mis) :
    Keeps w s (collectInner w s objs nm mis).st := by
  unfold collectInner
  split
  · exact Keeps.refl w s
  · simp only
    split
    · exact (Keeps.of_rfl w rfl)
    · split
      · refine keeps_andThen w _ _ _ ?_ ?_
        · refine Keeps.trans w _ _ _ ?_ (keeps_ensureCached w _ _ true)
          exact (Keeps.of_rfl w rfl)
        · intro s'; exact Keeps.refl w s'
      · exact (Keeps.of_rfl w rfl)
    · refine keeps_andThen w _ _ _ (Keeps.of_rfl w rfl) ?_
      intro s'
      refine keeps_andThen w _ _ _ (keeps_packExternalAssets w s' _ _) ?_
      intro s''
      split
      · exact Keeps.refl w s''
      · split
        · exact (Keeps.of_rfl w rfl)
        · exact Keeps.refl w s''

theorem keeps_collect (w : World) (s : BState) (objs : List Obj) (nm : Option Name) (mis : List Mis) :
    Keeps w s (collect w s objs nm mis).st := by
  unfold collect
  simp only
  split
  · exact keeps_foldl_state w _ _ _ _ (keeps_collectInner w s objs nm mis) (fun a x => keeps_commit w a x)
  · exact keeps_collectInner w s objs nm mis

theorem keeps_backstopCollect (w : World) (s : BState) : Keeps w s (backstopCollect w s).st := by
  unfold backstopCollect
  apply keeps_foldl w
  · exact Keeps.refl w s
  · intro r a h
    exact Keeps.trans w _ _ _ h (keeps_collect w r.st [a] none [])


theorem keeps_create (w : World) (s : BState) (n : Option Name) : Keeps w s (create s n).st := by
  unfold create
  split
  · exact Keeps.refl w s
  · cases n with
    | none => exact (Keeps.of_rfl w rfl)
    | some n => simp only; split <;> exact (Keeps.of_rfl w rfl)

theorem keeps_read (w : World) (s : BState) (o : Obj) (rd : Reading) : Keeps w s (read w s o rd).st := by
  unfold read
  split
  · exact Keeps.refl w s
  · apply keeps_andThen w
    · exact keeps_ensureCached w s o false
    · intro s'
      split <;> exact (Keeps.of_rfl w rfl)

theorem keeps_saveDescriptor (w : World) (s : BState) (n : Name) (objs : List Obj) :
    Keeps w s (saveDescriptor w s n objs).st := by
  unfold saveDescriptor
  split
  · apply keeps_andThen w
    · exact keeps_ensureAll w _ _ false
    · intro s'; exact keeps_prepareStream w s' n _
  · split <;> exact Keeps.refl w _

theorem keeps_saveEvent (w : World) (s : BState) (n : Name) (rd : List (Key × Val)) : Keeps w s (saveEvent s n rd).st := by
  unfold saveEvent
  split
  · exact Keeps.refl w s
  · exact keeps_composeEvent ..

theorem keeps_save (w : World) (s : BState) : Keeps w s (save w s).st := by
  unfold save
  split
  · exact Keeps.refl w s
  · split
    · simp only [Res.ok_st]; split <;> exact (Keeps.of_rfl w rfl)
    · split
      · exact (Keeps.of_rfl w rfl)
      · rename_i n hn
        refine Keeps.trans w _ { s with bundling := false, bundleName := none } _ (Keeps.of_rfl w rfl) ?_
        apply keeps_andThen w
        · exact keeps_saveDescriptor ..
        · intro s'; exact keeps_saveEvent ..

theorem keeps_drop (w : World) (s : BState) : Keeps w s (drop s).st := by
  unfold drop; split <;> exact (Keeps.of_rfl w rfl)

theorem keeps_rewindOp (w : World) (s : BState) : Keeps w s (rewindOp s) := by
  unfold rewindOp
  simp only
  have h1 : Keeps w s { s with seq := s.seqCopy } := (Keeps.of_rfl w rfl)
  have h2 : ∀ (l : List Name) (a : BState), Keeps w s a → Keeps w s (l.foldl
      (fun (a : BState) (n : Name) =>
        if ahas a.seq n then a
        else { a with seq := aset a.seq n firstSeq, seqCopy := aset a.seqCopy n firstSeq }) a) := by
    intro l
    induction l with
    | nil => intro a h; exact h
    | cons x t ih =>
      intro a h
      apply ih
      simp only
      split
      · exact h
      · exact Keeps.trans w _ _ _ h ((Keeps.of_rfl w rfl))
  split <;> split <;> first | exact Keeps.trans w _ _ _ (h2 _ _ h1) ((Keeps.of_rfl w rfl)) | exact h2 _ _ h1 | exact Keeps.trans w _ _ _ h1 ((Keeps.of_rfl w rfl)) | exact h1

theorem keeps_suspendMonitors (w : World) (s : BState) : Keeps w s (suspendMonitors s).st := (Keeps.of_rfl w rfl)
theorem keeps_restoreMonitors (w : World) (s : BState) : Keeps w s (restoreMonitors s).st := (Keeps.of_rfl w rfl)
theorem keeps_kickoff (w : World) (s : BState) (o : Obj) : Keeps w s (kickoff s o).st := (Keeps.of_rfl w rfl)
theorem keeps_setCfg (w : World) (s : BState) (o : Obj) (c : Config) : Keeps w s (step w s (.setCfg o c)).st := (Keeps.of_rfl w rfl)
theorem keeps_advance (w : World) (s : BState) (o : Obj) (k : Nat) : Keeps w s (step w s (.advance o k)).st := (Keeps.of_rfl w rfl)
theorem keeps_clearCheckpoint (w : World) (s : BState) : Keeps w s (step w s .clearCheckpoint).st := keeps_clearCp w s
theorem keeps_resetCheckpoint (w : World) (s : BState) : Keeps w s (step w s .resetCheckpoint).st := keeps_resetR w s
theorem keeps_rewind (w : World) (s : BState) : Keeps w s (step w s .rewind).st := keeps_rewindOp w s
theorem keeps_clearMonitors (w : World) (s : BState) : Keeps w s (clearMonitors s).st := keeps_dropMonitors w s

--@@STEP@@
end BlueskyVerif.Bundler.Keeps@@NAME@@
