theorem keeps_andThen (w : World) (s : BState) (r : Res) (f : BState → Res)
    (h1 : Keeps w s r.st) (h2 : ∀ s', Keeps w s' (f s').st) : Keeps w s (r.andThen f).st :=
  Res.andThen_rel (Keeps w) (Keeps.refl w) (Keeps.trans w) s r f h1 h2

theorem keeps_foldl (w : World) {α : Type} (l : List α) (g : Res → α → Res) (r : Res) (s : BState)
    (h0 : Keeps w s r.st) (hg : ∀ (r : Res) (a : α), Keeps w s r.st → Keeps w s (g r a).st) :
    Keeps w s (l.foldl g r).st := by
  induction l generalizing r with
  | nil => exact h0
  | cons a t ih => exact ih (g r a) (hg r a h0)

theorem keeps_foldl_state (w : World) {α : Type} (l : List α) (g : BState → α → BState) (s0 s : BState)
    (h0 : Keeps w s s0) (hg : ∀ (a : BState) (x : α), Keeps w a (g a x)) :
    Keeps w s (l.foldl g s0) := by
  induction l generalizing s0 with
  | nil => exact h0
  | cons a t ih => exact ih (g s0 a) (Keeps.trans w _ _ _ h0 (hg s0 a))

theorem keeps_commit (w : World) (s : BState) (n : Name) : Keeps w s (commit s n) := by
  unfold commit; split <;> keeps_basic

theorem keeps_resetCp (w : World) (s : BState) : Keeps w s (resetCp s) := by keeps_basic
theorem keeps_clearCp (w : World) (s : BState) : Keeps w s (clearCp s) := by keeps_basic

theorem keeps_rewindReadd (w : World) (s : BState) (n : Name) : Keeps w s (rewindReadd s n) := by
  unfold rewindReadd; split
  · exact Keeps.refl w s
  · keeps_basic

theorem keeps_rewindOp (w : World) (s : BState) : Keeps w s (rewindOp s) := by
  unfold rewindOp
  have h1 : Keeps w s { s with seq := s.seqCopy, log := s.log ++ [.rewind (akeys s.descriptors)] } :=
    (by keeps_basic)
  have h2 : Keeps w s (if rewindReaddsDescriptorStreams then
      (akeys ({ s with seq := s.seqCopy, log := s.log ++ [.rewind (akeys s.descriptors)] } : BState).descriptors).foldl
        rewindReadd { s with seq := s.seqCopy, log := s.log ++ [.rewind (akeys s.descriptors)] }
      else { s with seq := s.seqCopy, log := s.log ++ [.rewind (akeys s.descriptors)] }) := by
    split
    · exact keeps_foldl_state w _ _ _ _ h1 (fun a x => keeps_rewindReadd w a x)
    · exact h1
  simp only
  split
  · exact Keeps.trans w _ _ _ h2 (by keeps_basic)
  · exact h2

theorem keeps_composeEvent (w : World) (s : BState) (n : Name) (u : Nat) (dk ext : List Key) (data : List (Key × Val))
    (src : Src) (note : Option String) : Keeps w s (composeEvent s n u dk ext data src note).st := by
  unfold composeEvent
  split
  · exact Keeps.refl w s
  · split
    · keeps_basic
    · split <;> keeps_basic

theorem keeps_cacheReadConfig (w : World) (s : BState) (o : Obj) : Keeps w s (cacheReadConfig w s o).st := by
  unfold cacheReadConfig; split <;> keeps_basic

theorem keeps_cacheDescribeConfig (w : World) (s : BState) (o : Obj) :
    Keeps w s (cacheDescribeConfig w s o).st := by
  unfold cacheDescribeConfig; split <;> keeps_basic

theorem keeps_cacheDescribe (w : World) (s : BState) (o : Obj) (c : Bool) :
    Keeps w s (cacheDescribe w s o c).st := by
  unfold cacheDescribe
  split
  · exact Keeps.refl w s
  · split
    · exact Keeps.refl w s
    · split
      · keeps_basic
      · split
        · keeps_basic
        · exact Keeps.refl w s

theorem keeps_cacheConfig (w : World) (s : BState) (o : Obj) : Keeps w s (cacheConfig w s o).st := by
  unfold cacheConfig
  split
  · apply keeps_andThen
    · exact keeps_cacheDescribeConfig w s o
    · intro s''; exact keeps_cacheReadConfig w s'' o
  · exact Keeps.refl w s

theorem keeps_ensureCached (w : World) (s : BState) (o : Obj) (c : Bool) :
    Keeps w s (ensureCached w s o c).st := by
  unfold ensureCached
  apply keeps_andThen
  · exact keeps_cacheDescribe w s o c
  · intro s'; exact keeps_cacheConfig w s' o

theorem keeps_ensureAll (w : World) (s : BState) (objs : List Obj) (c : Bool) :
    Keeps w s (ensureAll w s objs c).st := by
  unfold ensureAll
  apply keeps_foldl
  · exact Keeps.refl w s
  · intro r a h
    exact keeps_andThen w s r _ h (fun s' => keeps_ensureCached w s' a c)

theorem keeps_prepareStore (w : World) (s : BState) (n : Name) (objsDks : List (Obj × List Key)) (uid : Nat) :
    Keeps w s (prepareStore w s n objsDks uid) := by keeps_basic

theorem keeps_prepareFinish (w : World) (s : BState) (n : Name) (objsDks : List (Obj × List Key)) (uid : Nat) :
    Keeps w s (prepareFinish w s n objsDks uid) := by
  unfold prepareFinish
  split
  · exact keeps_prepareStore w s n objsDks uid
  · exact Keeps.trans w _ _ _ (keeps_prepareStore w s n objsDks uid) (by keeps_basic)

theorem keeps_prepareStream (w : World) (s : BState) (n : Name) (objsDks : List (Obj × List Key)) :
    Keeps w s (prepareStream w s n objsDks).st := by
  unfold prepareStream
  split
  · exact Keeps.refl w s
  · split
    · split
      · keeps_basic
      · refine Keeps.trans w _ _ _ ?_ (keeps_prepareFinish w _ n objsDks _)
        keeps_basic
    · refine Keeps.trans w _ _ _ ?_ (keeps_prepareFinish w _ n objsDks _)
      keeps_basic

theorem keeps_dropMonitors (w : World) (s : BState) : Keeps w s (dropMonitors s).st := by keeps_basic

theorem keeps_closeRunTail (w : World) (s : BState) (e r : String) : Keeps w s (closeRunTail s e r).st := by
  have aux : ∀ (s1 : BState), Keeps w s s1 → Keeps w s { resetCp s1 with runOpen := false } := by
    intro s1 h
    exact Keeps.trans w s s1 _ h (Keeps.trans w s1 (resetCp s1) _ (keeps_resetCp w s1) (by keeps_basic))
  unfold closeRunTail
  split
  · exact Keeps.refl w s
  · simp only [Res.ok_st]
    split
    · exact aux _ (by keeps_basic)
    · keeps_basic

theorem keeps_closeRun (w : World) (s : BState) (e r : Option String) : Keeps w s (closeRun s e r).st := by
  unfold closeRun
  split
  · exact Keeps.refl w s
  · apply keeps_andThen
    · exact keeps_dropMonitors w s
    · intro s'; exact keeps_closeRunTail w s' _ _

theorem keeps_create (w : World) (s : BState) (n : Option Name) : Keeps w s (create s n).st := by
  unfold create
  split
  · exact Keeps.refl w s
  · cases n with
    | none => keeps_basic
    | some n => simp only; split <;> keeps_basic

theorem keeps_read (w : World) (s : BState) (o : Obj) (rd : Reading) : Keeps w s (read w s o rd).st := by
  unfold read
  split
  · exact Keeps.refl w s
  · apply keeps_andThen
    · exact keeps_ensureCached w s o false
    · intro s'
      split
      · exact Keeps.refl w s'
      · keeps_basic

theorem keeps_saveDescriptor (w : World) (s : BState) (n : Name) (objs : List Obj) :
    Keeps w s (saveDescriptor w s n objs).st := by
  unfold saveDescriptor
  split
  · apply keeps_andThen
    · exact keeps_ensureAll w _ _ false
    · intro s'; exact keeps_prepareStream w s' n _
  · split <;> exact Keeps.refl w s

theorem keeps_saveEvent (w : World) (s : BState) (n : Name) (rd : List (Key × Val)) : Keeps w s (saveEvent s n rd).st := by
  unfold saveEvent
  split
  · exact Keeps.refl w s
  · exact keeps_composeEvent w s n _ _ _ _ _ _

theorem keeps_save (w : World) (s : BState) : Keeps w s (save w s).st := by
  unfold save
  split
  · exact Keeps.refl w s
  · split
    · simp only [Res.ok_st]; split
      · keeps_basic
      · exact Keeps.refl w s
    · split
      · keeps_basic
      · rename_i n hn
        refine Keeps.trans w _ { s with bundling := false, bundleName := none } _ (by keeps_basic) ?_
        apply keeps_andThen
        · exact keeps_saveDescriptor w _ n _
        · intro s'; exact keeps_saveEvent w s' n _

theorem keeps_drop (w : World) (s : BState) : Keeps w s (drop s).st := by
  unfold drop; split
  · exact Keeps.refl w s
  · keeps_basic

theorem keeps_monitorSubscribe (w : World) (s : BState) (o : Obj) (n : Name) :
    Keeps w s (monitorSubscribe s o n).st := by
  unfold monitorSubscribe
  split
  · exact Keeps.refl w s
  · keeps_basic

theorem keeps_monitor (w : World) (s : BState) (o : Obj) (n : Name) : Keeps w s (monitor w s o n).st := by
  unfold monitor
  split
  · exact Keeps.refl w s
  · apply keeps_andThen
    · exact keeps_ensureCached w s o false
    · intro s'
      apply keeps_andThen
      · exact keeps_prepareStream w s' n _
      · intro s''; exact keeps_monitorSubscribe w s'' o n

theorem keeps_monitorCompose (w : World) (s : BState) (m : MonRec) (rd : Reading) :
    Keeps w s (monitorCompose s m rd).st := by
  unfold monitorCompose
  split
  · split
    · exact Keeps.refl w s
    · exact keeps_composeEvent w s _ _ _ _ _ _ _
  · exact keeps_composeEvent w s _ _ _ _ _ _ _

theorem keeps_monitorUpdate (w : World) (s : BState) (o : Obj) (rd : Reading) : Keeps w s (monitorUpdate s o rd).st := by
  unfold monitorUpdate
  split
  · exact Keeps.refl w s
  · apply keeps_andThen
    · exact keeps_monitorCompose w s _ rd
    · intro s'
      simp only [Res.ok_st]
      split
      · exact keeps_commit w s' _
      · exact Keeps.refl w s'

theorem keeps_unmonitor (w : World) (s : BState) (o : Obj) : Keeps w s (unmonitor s o).st := by
  unfold unmonitor
  split
  · exact Keeps.refl w s
  · simp only
    split
    · refine Keeps.trans w _ _ _ ?_ (keeps_resetCp w _)
      keeps_basic
    · keeps_basic

theorem keeps_recordInterruption (w : World) (s : BState) (c : String) : Keeps w s (recordInterruption s c).st := by
  unfold recordInterruption
  split
  · exact Keeps.refl w s
  · apply keeps_andThen
    · exact keeps_composeEvent w s _ _ _ _ _ _ _
    · intro s'
      simp only [Res.ok_st]
      split
      · exact keeps_commit w s' _
      · exact Keeps.refl w s'

theorem keeps_reprepareOne (w : World) (s : BState) (o : Obj) (n : Name) :
    Keeps w s (reprepareOne w s o n).st := by
  unfold reprepareOne
  split
  · exact Keeps.refl w s
  · split
    · refine Keeps.trans w _ _ _ ?_ (keeps_prepareStream w _ n _)
      keeps_basic
    · exact Keeps.refl w s

theorem keeps_reprepareAll (w : World) (s : BState) (o : Obj) : Keeps w s (reprepareAll w s o).st := by
  unfold reprepareAll
  apply keeps_foldl
  · exact Keeps.refl w s
  · intro r n h
    exact keeps_andThen w s r _ h (fun s' => keeps_reprepareOne w s' o n)

theorem keeps_configure (w : World) (s : BState) (o : Obj) : Keeps w s (configure w s o).st := by
  unfold configure
  apply keeps_andThen
  · exact keeps_cacheReadConfig w s o
  · intro s'; exact keeps_reprepareAll w s' o

theorem keeps_declareStream (w : World) (s : BState) (n : Name) (objs : List Obj) (c : Bool) :
    Keeps w s (declareStream w s n objs c).st := by
  unfold declareStream
  apply keeps_andThen
  · exact keeps_ensureAll w s _ c
  · intro s'
    split
    · exact Keeps.refl w s'
    · refine Keeps.trans w _ _ _ ?_ (keeps_prepareStream w _ n _)
      keeps_basic

theorem keeps_kickoff (w : World) (s : BState) (o : Obj) : Keeps w s (kickoff s o).st := by keeps_basic

theorem keeps_packOne (w : World) (n : Name) (d : Desc) (p : PackSt) (a : Asset) (s : BState)
    (h : Keeps w s p.st) : Keeps w s (packOne n d p a).st := by
  unfold packOne
  split
  · exact h
  · cases a with
    | resource uid key =>
      simp only
      split
      · exact h
      · split
        · exact Keeps.trans w _ _ _ h (by keeps_basic)
        · exact Keeps.trans w _ _ _ h (by keeps_basic)
    | datum uid resource descFilled start stop seqFilled =>
      simp only
      split
      · exact h
      · split
        · exact h
        · split
          · exact h
          · split
            · exact h
            · split
              · exact h
              · exact Keeps.trans w _ _ _ h (by keeps_basic)

theorem keeps_packFold (w : World) (n : Name) (d : Desc) (l : List Asset) (p : PackSt) (s : BState)
    (h : Keeps w s p.st) : Keeps w s (l.foldl (packOne n d) p).st := by
  induction l generalizing p with
  | nil => exact h
  | cons a t ih => exact ih _ (keeps_packOne w n d p a s h)

theorem keeps_packExternalAssets (w : World) (s : BState) (n : Name) (assets : List Asset) :
    Keeps w s (packExternalAssets s n assets).st := by
  unfold packExternalAssets
  split
  · exact Keeps.refl w s
  · rename_i d hd
    have h0 := keeps_packFold w n d assets { st := s } s (Keeps.refl w s)
    simp only
    split
    · exact h0
    · split
      · exact h0
      · exact h0

theorem keeps_collectBump (w : World) (p : PackSt) (n : Name) : Keeps w p.st (collectBump p n).st := by
  unfold collectBump
  split
  · exact Keeps.refl w _
  · split
    · exact Keeps.refl w _
    · simp only [Res.ok_st]
      split
      · keeps_basic
      · exact Keeps.refl w _

theorem keeps_collectInto (w : World) (s : BState) (objs : List Obj) (n : Name) (mis : List Mis) :
    Keeps w s (collectInto w s objs n mis).st := by
  unfold collectInto
  simp only
  refine Keeps.trans w _ _ _ ?_ (keeps_collectBump w _ n)
  refine Keeps.trans w _ _ _ ?_ (keeps_packExternalAssets w _ n _)
  keeps_basic

theorem keeps_collectInner (w : World) (s : BState) (objs : List Obj) (nm : Option Name) (mis : List Mis) :
    Keeps w s (collectInner w s objs nm mis).st := by
  unfold collectInner
  split
  · exact Keeps.refl w s
  · split
    · keeps_basic
    · split
      · refine keeps_andThen w _ _ _ ?_ ?_
        · refine Keeps.trans w _ _ _ ?_ (keeps_ensureCached w _ _ true)
          keeps_basic
        · intro s'; exact Keeps.refl w s'
      · keeps_basic
    · refine Keeps.trans w _ _ _ ?_ (keeps_collectInto w _ objs _ mis)
      keeps_basic

theorem keeps_commitChanged (w : World) (before : List (Name × Nat)) (s : BState) :
    Keeps w s (commitChanged before s) := by
  unfold commitChanged
  exact keeps_foldl_state w _ _ _ _ (Keeps.refl w s) (fun a x => keeps_commit w a x)

theorem keeps_collect (w : World) (s : BState) (objs : List Obj) (nm : Option Name) (mis : List Mis) :
    Keeps w s (collect w s objs nm mis).st := by
  unfold collect
  split
  · exact Keeps.trans w _ _ _ (keeps_collectInner w s objs nm mis) (keeps_commitChanged w _ _)
  · exact keeps_collectInner w s objs nm mis

theorem keeps_backstopCollect (w : World) (s : BState) : Keeps w s (backstopCollect w s).st := by
  unfold backstopCollect
  apply keeps_foldl
  · exact Keeps.refl w s
  · intro r a h
    exact Keeps.trans w _ _ _ h (keeps_collect w r.st [a] none [])

theorem keeps_suspendMonitors (w : World) (s : BState) : Keeps w s (suspendMonitors s).st := by keeps_basic
theorem keeps_restoreMonitors (w : World) (s : BState) : Keeps w s (restoreMonitors s).st := by keeps_basic
theorem keeps_setCfg (w : World) (s : BState) (o : Obj) (c : Config) : Keeps w s (step w s (.setCfg o c)).st := by keeps_basic
theorem keeps_advance (w : World) (s : BState) (o : Obj) (k : Nat) : Keeps w s (step w s (.advance o k)).st := by keeps_basic
theorem keeps_clearCheckpoint (w : World) (s : BState) : Keeps w s (step w s .clearCheckpoint).st := keeps_clearCp w s
theorem keeps_resetCheckpoint (w : World) (s : BState) : Keeps w s (step w s .resetCheckpoint).st := keeps_resetCp w s
theorem keeps_rewind (w : World) (s : BState) : Keeps w s (step w s .rewind).st := keeps_rewindOp w s
theorem keeps_clearMonitors (w : World) (s : BState) : Keeps w s (clearMonitors s).st := keeps_dropMonitors w s

--@@STEP@@
end BlueskyVerif.Bundler.Keeps@@NAME@@
