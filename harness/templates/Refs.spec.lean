/-- every descriptor held has a uid below the next free uid -/
def UidInv (s : BState) : Prop := ∀ nd ∈ s.descriptors, nd.2.uid < s.nextUid

/-- an event / stream datum of a stream other than the interruptions stream references (by uid) a
    descriptor of ITS stream that is held in `s`, or one made later (uid ≥ the next free uid of `s`) -/
def RefOK (s : BState) (e : Doc) : Prop :=
  (e.kind = .event ∨ e.kind = .streamDatum) → e.src ≠ .interruption →
    ∃ u n, e.descriptor = some u ∧ e.stream = some n ∧ ((∃ d, (n, d) ∈ s.descriptors ∧ d.uid = u) ∨ s.nextUid ≤ u)

def proj (s : BState) := (s.nextUid, s.descriptors, s.out)

def Keeps (_w : World) (s s' : BState) : Prop :=
  s.nextUid ≤ s'.nextUid ∧
  (UidInv s → UidInv s' ∧ (∀ nd ∈ s'.descriptors, nd ∈ s.descriptors ∨ s.nextUid ≤ nd.2.uid) ∧
    ∃ new, s'.out = s.out ++ new ∧ ∀ e ∈ new, RefOK s e)

theorem Keeps.refl (w : World) (s : BState) : Keeps w s s :=
  ⟨Nat.le_refl _, fun h => ⟨h, fun _ hm => Or.inl hm, [], by simp, by simp⟩⟩

theorem Keeps.trans (w : World) (a b c : BState) (h1 : Keeps w a b) (h2 : Keeps w b c) : Keeps w a c := by
  refine ⟨Nat.le_trans h1.1 h2.1, fun h => ?_⟩
  obtain ⟨hb, m1, n1, e1, r1⟩ := h1.2 h
  obtain ⟨hc, m2, n2, e2, r2⟩ := h2.2 hb
  refine ⟨hc, fun nd hm => ?_, n1 ++ n2, by rw [e2, e1, List.append_assoc], fun e hm => ?_⟩
  · rcases m2 nd hm with h | h
    · exact m1 nd h
    · exact Or.inr (Nat.le_trans h1.1 h)
  · rcases List.mem_append.1 hm with hm | hm
    · exact r1 e hm
    · intro hk hs
      obtain ⟨u, n, hu, hn, hd⟩ := r2 e hm hk hs
      refine ⟨u, n, hu, hn, ?_⟩
      rcases hd with ⟨d, hdm, hdu⟩ | hge
      · rcases m1 (n, d) hdm with h | h
        · exact Or.inl ⟨d, h, hdu⟩
        · exact Or.inr (hdu ▸ h)
      · exact Or.inr (Nat.le_trans h1.1 hge)

theorem Keeps.of_rfl (w : World) {s s' : BState} (h : proj s' = proj s) : Keeps w s s' := by
  unfold proj at h
  simp only [Prod.mk.injEq] at h
  refine ⟨by rw [h.1]; exact Nat.le_refl _, fun hi => ⟨?_, fun nd hm => Or.inl (h.2.1 ▸ hm), [], by simp [h.2.2], by simp⟩⟩
  intro nd hm; rw [h.2.1] at hm; rw [h.1]; exact hi nd hm

/-- bump the uid counter and emit documents that satisfy `RefOK`, `_descriptors` untouched -/
theorem Keeps.of_out (w : World) {s s' : BState} (l : List Doc) (h0 : s.nextUid ≤ s'.nextUid)
    (h1 : s'.out = s.out ++ l) (h2 : s'.descriptors = s.descriptors) (h4 : ∀ e ∈ l, RefOK s e) : Keeps w s s' := by
  refine ⟨h0, fun hi => ⟨?_, fun nd hm => Or.inl (h2 ▸ hm), l, h1, h4⟩⟩
  intro nd hm; rw [h2] at hm; exact Nat.lt_of_lt_of_le (hi nd hm) h0

/-- `ComposeEvent` for a descriptor uid that is fine for the stream -/
theorem composeEvent_ok (w : World) (s : BState) (n : Name) (u : Nat) (dk ext : List Key) (data : List (Key × Val))
    (src : Src) (note : Option String)
    (hu : src = .interruption ∨ (∃ d, (n, d) ∈ s.descriptors ∧ d.uid = u)) :
    Keeps w s (composeEvent s n u dk ext data src note).st := by
  unfold composeEvent
  split
  · exact Keeps.refl w s
  · split
    · exact Keeps.of_out w [] (Nat.le_succ _) (by simp) rfl (by simp)
    · split
      · exact Keeps.of_out w [] (Nat.le_succ _) (by simp) rfl (by simp)
      · refine Keeps.of_out w _ (Nat.le_succ _) rfl rfl ?_
        intro e he hk hs
        simp at he; subst he
        rcases hu with hu | hu
        · exact absurd hu hs
        · exact ⟨u, n, rfl, rfl, Or.inl hu⟩

--@@OVERRIDE keeps_saveEvent
theorem keeps_saveEvent (w : World) (s : BState) (n : Name) (rd : List (Key × Val)) : Keeps w s (saveEvent s n rd).st := by
  unfold saveEvent
  split
  · exact Keeps.refl w s
  · rename_i d hd
    exact composeEvent_ok w s n d.uid _ _ _ _ _ (Or.inr ⟨d, aget_mem _ _ _ hd, rfl⟩)

--@@OVERRIDE keeps_monitorCompose
theorem keeps_monitorCompose (w : World) (s : BState) (m : MonRec) (rd : Reading) :
    Keeps w s (monitorCompose s m rd).st := by
  unfold monitorCompose
  simp only [monitorUsesCurrentDescriptor, if_true]
  split
  · exact Keeps.refl w s
  · rename_i d hd
    exact composeEvent_ok w s m.name d.uid _ _ _ _ _ (Or.inr ⟨d, aget_mem _ _ _ hd, rfl⟩)

--@@OVERRIDE keeps_recordInterruption
theorem keeps_recordInterruption (w : World) (s : BState) (c : String) : Keeps w s (recordInterruption s c).st := by
  unfold recordInterruption
  split
  · exact Keeps.refl w s
  · apply keeps_andThen
    · exact composeEvent_ok w s _ _ _ _ _ _ _ (Or.inl rfl)
    · intro s'
      simp only [Res.ok_st]
      split
      · exact keeps_commit w s' _
      · exact Keeps.refl w s'

--@@OVERRIDE keeps_prepareStream
theorem keeps_prepareStream (w : World) (s : BState) (n : Name) (objsDks : List (Obj × List Key)) :
    Keeps w s (prepareStream w s n objsDks).st := by
  have fin : ∀ (s1 : BState), s1.nextUid = s.nextUid + 1 → s1.descriptors = s.descriptors → s1.out = s.out →
      Keeps w s (prepareFinish w s1 n objsDks s.nextUid) := by
    intro s1 h1 h2 h3
    have hst : (prepareFinish w s1 n objsDks s.nextUid).nextUid = s.nextUid + 1 ∧
        (prepareFinish w s1 n objsDks s.nextUid).descriptors = aset s.descriptors n (mkDesc w s1 objsDks s.nextUid) ∧
        (prepareFinish w s1 n objsDks s.nextUid).out = s.out ++ [descDoc s1 n (mkDesc w s1 objsDks s.nextUid)] := by
      unfold prepareFinish prepareStore
      split <;> simp [h1, h2, h3]
    refine ⟨by rw [hst.1]; exact Nat.le_succ _, fun hi => ⟨?_, ?_, _, hst.2.2, ?_⟩⟩
    · intro nd hm
      rw [hst.2.1] at hm; rw [hst.1]
      rcases mem_aset _ _ _ _ hm with h | h
      · exact Nat.lt_succ_of_lt (hi nd h)
      · subst h; exact Nat.lt_succ_self _
    · intro nd hm
      rw [hst.2.1] at hm
      rcases mem_aset _ _ _ _ hm with h | h
      · exact Or.inl h
      · subst h; exact Or.inr (Nat.le_refl _)
    · intro e he hk
      simp at he; subst he
      rcases hk with hk | hk <;> simp [descDoc] at hk
  unfold prepareStream
  split
  · exact Keeps.refl w s
  · split
    · split
      · exact Keeps.of_out w [] (Nat.le_succ _) (by simp) rfl (by simp)
      · exact fin _ rfl rfl rfl
    · exact fin _ rfl rfl rfl

--@@OVERRIDE keeps_reprepareOne
theorem keeps_reprepareOne (w : World) (s : BState) (o : Obj) (n : Name) :
    Keeps w s (reprepareOne w s o n).st := by
  unfold reprepareOne
  split
  · exact Keeps.refl w s
  · split
    · refine Keeps.trans w _ _ _ ?_ (keeps_prepareStream w _ n _)
      refine ⟨Nat.le_refl _, fun hi => ⟨fun nd hm => hi nd (mem_aerase _ _ _ hm), fun nd hm => Or.inl (mem_aerase _ _ _ hm),
        [], by simp, by simp⟩⟩
    · exact Keeps.refl w s

--@@OVERRIDE keeps_closeRunTail
theorem keeps_closeRunTail (w : World) (s : BState) (e r : String) : Keeps w s (closeRunTail s e r).st := by
  unfold closeRunTail
  split
  · exact Keeps.refl w s
  · simp only [Res.ok_st]
    split
    · refine Keeps.trans w _ _ _ ?_ (Keeps.of_rfl w rfl)
      refine Keeps.trans w _ _ _ ?_ (keeps_resetCp w _)
      exact Keeps.of_out w _ (Nat.le_succ _) rfl rfl (by intro d hd hk; simp at hd; subst hd; simp at hk)
    · exact Keeps.of_out w _ (Nat.le_succ _) rfl rfl (by intro d hd hk; simp at hd; subst hd; simp at hk)

--@@OVERRIDE keeps_packExternalAssets
theorem keeps_packExternalAssets (w : World) (s : BState) (n : Name) (assets : List Asset) :
    Keeps w s (packExternalAssets s n assets).st := by
  unfold packExternalAssets
  split
  · exact Keeps.refl w s
  · rename_i d hd
    have hdm : (n, d) ∈ s.descriptors := aget_mem _ _ _ hd
    -- one asset
    have one : ∀ (p : PackSt) (a : Asset), Keeps w s p.st → Keeps w s (packOne n d p a).st := by
      intro p a h
      have hstep : ∀ (e : Doc) (st' : BState), st'.nextUid = p.st.nextUid → st'.descriptors = p.st.descriptors →
          st'.out = p.st.out ++ [e] → RefOK s e → Keeps w s st' := by
        intro e st' h1 h2 h3 h4
        refine ⟨by rw [h1]; exact h.1, fun hi => ?_⟩
        obtain ⟨hp, m1, nw, e1, r1⟩ := h.2 hi
        refine ⟨?_, fun nd hm => m1 nd (h2 ▸ hm), nw ++ [e], by rw [h3, e1, List.append_assoc], ?_⟩
        · intro nd hm; rw [h2] at hm; rw [h1]; exact hp nd hm
        · intro x hx
          rcases List.mem_append.1 hx with hx | hx
          · exact r1 x hx
          · simp at hx; subst hx; exact h4
      unfold packOne
      split
      · exact h
      · cases a with
        | resource uid key =>
          simp only
          split
          · exact h
          · split
            · exact Keeps.trans w _ _ _ h (Keeps.of_rfl w rfl)
            · exact hstep _ _ rfl rfl rfl (by intro hk; simp at hk)
        | datum uid resource descFilled start stop seqFilled =>
          simp only
          split
          · exact h
          · split
            · exact h
            · split
              · exact h
              · split
                · exact h
                · split
                  · exact h
                  · exact hstep _ _ rfl rfl rfl (fun _ _ => ⟨d.uid, n, rfl, rfl, Or.inl ⟨d, hdm, rfl⟩⟩)
    have fold : ∀ (l : List Asset) (p : PackSt), Keeps w s p.st → Keeps w s (l.foldl (packOne n d) p).st := by
      intro l
      induction l with
      | nil => intro p h; exact h
      | cons a t ih => intro p h; exact ih _ (one p a h)
    have h0 := fold assets { st := s } (Keeps.refl w s)
    simp only
    split
    · exact h0
    · split
      · exact h0
      · exact h0
