/-- the cache of `obj.describe()` results -/
def proj (s : BState) := s.describeCache

/-- cached describes persist, and whatever is new is what the device's `describe()` returns -/
def Keeps (w : World) (s s' : BState) : Prop :=
  (∀ o ks, aget s.describeCache o = some ks → aget s'.describeCache o = some ks) ∧
  (∀ o ks, aget s'.describeCache o = some ks → aget s.describeCache o = some ks ∨ ks = (w.spec o).keys)

theorem Keeps.refl (w : World) (s : BState) : Keeps w s s := ⟨fun _ _ h => h, fun _ _ h => Or.inl h⟩
theorem Keeps.trans (w : World) (a b c : BState) (h1 : Keeps w a b) (h2 : Keeps w b c) : Keeps w a c := by
  refine ⟨fun o ks h => h2.1 o ks (h1.1 o ks h), fun o ks h => ?_⟩
  rcases h2.2 o ks h with h | h
  · exact h1.2 o ks h
  · exact Or.inr h
theorem Keeps.of_rfl (w : World) {s s' : BState} (h : proj s' = proj s) : Keeps w s s' := by
  unfold proj at h
  unfold Keeps; rw [h]; exact ⟨fun _ _ h => h, fun _ _ h => Or.inl h⟩

--@@OVERRIDE keeps_cacheDescribe
theorem keeps_cacheDescribe (w : World) (s : BState) (o : Obj) (c : Bool) :
    Keeps w s (cacheDescribe w s o c).st := by
  unfold cacheDescribe
  split
  · exact Keeps.refl w s
  · split
    · exact Keeps.refl w s
    · split
      · rename_i h
        have hn : aget s.describeCache o = none := by
          simp only [Bool.and_eq_true, Bool.not_eq_true', ahas_false_iff] at h; exact h.2
        refine ⟨fun o' ks hk => ?_, fun o' ks hk => ?_⟩
        · simp only
          by_cases e : o = o'
          · subst e; rw [hn] at hk; cases hk
          · rw [aget_aset_ne _ _ _ _ e]; exact hk
        · simp only at hk
          by_cases e : o = o'
          · subst e; rw [aget_aset_same] at hk; cases hk; exact Or.inr rfl
          · rw [aget_aset_ne _ _ _ _ e] at hk; exact Or.inl hk
      · split
        · exact (Keeps.of_rfl w rfl)
        · exact Keeps.refl w s
