def proj (s : BState) := s.descriptors

/-- a stored descriptor's data keys are the (de-duplicated) keys of its objects -/
def WF (d : Desc) : Prop := d.keys = dedupKeys (d.objs.flatMap Prod.snd)

def Keeps (_w : World) (s s' : BState) : Prop := (∀ nd ∈ s.descriptors, WF nd.2) → ∀ nd ∈ s'.descriptors, WF nd.2

theorem Keeps.refl (w : World) (s : BState) : Keeps w s s := fun h => h
theorem Keeps.trans (w : World) (a b c : BState) (h1 : Keeps w a b) (h2 : Keeps w b c) : Keeps w a c :=
  fun h => h2 (h1 h)
theorem Keeps.of_rfl (w : World) {s s' : BState} (h : proj s' = proj s) : Keeps w s s' := by
  unfold proj at h; unfold Keeps; rw [h]; exact fun h => h

--@@OVERRIDE keeps_prepareStore
theorem keeps_prepareStore (w : World) (s : BState) (n : Name) (objsDks : List (Obj × List Key)) (uid : Nat) :
    Keeps w s (prepareStore w s n objsDks uid) := by
  intro h nd hm
  rcases mem_aset _ _ _ _ hm with h1 | h1
  · exact h nd h1
  · subst h1; rfl

--@@OVERRIDE keeps_reprepareOne
theorem keeps_reprepareOne (w : World) (s : BState) (o : Obj) (n : Name) :
    Keeps w s (reprepareOne w s o n).st := by
  unfold reprepareOne
  split
  · exact Keeps.refl w s
  · split
    · refine Keeps.trans w _ _ _ ?_ (keeps_prepareStream w _ n _)
      exact fun h nd hm => h nd (mem_aerase _ _ _ hm)
    · exact Keeps.refl w s
