def proj (s : BState) := s.out

/-- the output grows by descriptor documents only -/
def Keeps (_w : World) (s s' : BState) : Prop :=
  ∃ new, s'.out = s.out ++ new ∧ ∀ d ∈ new, d.kind = .descriptor

theorem Keeps.refl (w : World) (s : BState) : Keeps w s s := ⟨[], by simp, by simp⟩

theorem Keeps.trans (w : World) (a b c : BState) (h1 : Keeps w a b) (h2 : Keeps w b c) : Keeps w a c := by
  obtain ⟨n1, e1, d1⟩ := h1
  obtain ⟨n2, e2, d2⟩ := h2
  refine ⟨n1 ++ n2, by rw [e2, e1, List.append_assoc], fun d hm => ?_⟩
  rcases List.mem_append.1 hm with h | h
  · exact d1 d h
  · exact d2 d h

theorem Keeps.of_rfl (w : World) {s s' : BState} (h : proj s' = proj s) : Keeps w s s' := by
  unfold proj at h
  exact ⟨[], by simp [h], by simp⟩

--@@OVERRIDE keeps_prepareStore
theorem keeps_prepareStore (w : World) (s : BState) (n : Name) (objsDks : List (Obj × List Key)) (uid : Nat) :
    Keeps w s (prepareStore w s n objsDks uid) :=
  ⟨[descDoc s n (mkDesc w s objsDks uid)], rfl, by intro d hd; simp at hd; subst hd; rfl⟩

