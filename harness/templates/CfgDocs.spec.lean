/-- what a device reports as its configuration right now (`read_configuration()`), `{}` for a
    device that is not Configurable -/
def reported (w : World) (env : List (Obj × Config)) (o : Obj) : Config :=
  if (w.spec o).configurable then (aget env o).getD [] else []

/-- the cache of `read_configuration()` values agrees with the devices -/
def CacheCur (w : World) (s : BState) : Prop :=
  ∀ o c, aget s.configValuesCache o = some c → c = reported w s.envCfg o

/-- a descriptor document made by `_prepare_stream` records, for every object of its stream, the
    configuration the device reports (under environment `env`) -/
def DocCfgOK (w : World) (env : List (Obj × Config)) (doc : Doc) : Prop :=
  doc.kind = .descriptor → doc.src = .prepare →
    (∀ ob ∈ doc.config, ob.2.data = reported w env ob.1) ∧ doc.config.map Prod.fst = doc.objKeys.map Prod.fst

def proj (s : BState) := (s.envCfg, s.configValuesCache, s.out)

/-- the devices' configuration is untouched; if the cache agreed with the devices it still does,
    and every descriptor emitted in between records the devices' current configuration -/
def Keeps (w : World) (s s' : BState) : Prop :=
  s'.envCfg = s.envCfg ∧
  (CacheCur w s → CacheCur w s' ∧ ∃ new, s'.out = s.out ++ new ∧ ∀ doc ∈ new, DocCfgOK w s.envCfg doc)

theorem Keeps.refl (w : World) (s : BState) : Keeps w s s := ⟨rfl, fun h => ⟨h, [], by simp, by simp⟩⟩

theorem Keeps.trans (w : World) (a b c : BState) (h1 : Keeps w a b) (h2 : Keeps w b c) : Keeps w a c := by
  refine ⟨h2.1.trans h1.1, fun h => ?_⟩
  obtain ⟨hb, n1, e1, d1⟩ := h1.2 h
  obtain ⟨hc, n2, e2, d2⟩ := h2.2 hb
  refine ⟨hc, n1 ++ n2, by rw [e2, e1, List.append_assoc], fun doc hm => ?_⟩
  rcases List.mem_append.1 hm with hm | hm
  · exact d1 doc hm
  · have := d2 doc hm; rw [h1.1] at this; exact this

theorem Keeps.of_rfl (w : World) {s s' : BState} (h : proj s' = proj s) : Keeps w s s' := by
  unfold proj at h
  simp only [Prod.mk.injEq] at h
  refine ⟨h.1, fun hc => ⟨?_, [], by simp [h.2.2], by simp⟩⟩
  intro o c hoc; rw [h.2.1] at hoc; rw [h.1]; exact hc o c hoc

/-- emitting documents that are not `_prepare_stream` descriptors, caches untouched -/
theorem Keeps.of_out (w : World) {s s' : BState} (l : List Doc) (h1 : s'.out = s.out ++ l)
    (h2 : s'.envCfg = s.envCfg) (h3 : s'.configValuesCache = s.configValuesCache)
    (h4 : ∀ doc ∈ l, ¬ (doc.kind = .descriptor ∧ doc.src = .prepare)) : Keeps w s s' := by
  refine ⟨h2, fun hc => ⟨?_, l, h1, fun doc hm hk hs => absurd ⟨hk, hs⟩ (h4 doc hm)⟩⟩
  intro o c hoc; rw [h3] at hoc; rw [h2]; exact hc o c hoc

--@@OVERRIDE keeps_composeEvent
theorem keeps_composeEvent (w : World) (s : BState) (n : Name) (u : Nat) (dk ext : List Key) (data : List (Key × Val))
    (src : Src) (note : Option String) : Keeps w s (composeEvent s n u dk ext data src note).st := by
  unfold composeEvent
  split
  · exact Keeps.refl w s
  · split
    · exact (Keeps.of_rfl w rfl)
    · split
      · exact (Keeps.of_rfl w rfl)
      · exact Keeps.of_out w _ rfl rfl rfl (by intro doc hd; simp at hd; subst hd; simp)

--@@OVERRIDE keeps_cacheReadConfig
theorem keeps_cacheReadConfig (w : World) (s : BState) (o : Obj) : Keeps w s (cacheReadConfig w s o).st := by
  unfold cacheReadConfig
  split
  · rename_i hcf
    refine ⟨rfl, fun hc => ⟨?_, [], by simp, by simp⟩⟩
    intro o' c hoc
    simp only at hoc
    by_cases e : o = o'
    · subst e; rw [aget_aset_same] at hoc; cases hoc; simp [reported, hcf]
    · rw [aget_aset_ne _ _ _ _ e] at hoc; exact hc o' c hoc
  · rename_i hcf
    refine ⟨rfl, fun hc => ⟨?_, [], by simp, by simp⟩⟩
    intro o' c hoc
    simp only [Res.ok_st] at hoc
    by_cases e : o = o'
    · subst e; rw [aget_aset_same] at hoc; cases hoc; simp [reported, hcf]
    · rw [aget_aset_ne _ _ _ _ e] at hoc; exact hc o' c hoc

--@@OVERRIDE keeps_prepareStream
theorem keeps_prepareStream (w : World) (s : BState) (n : Name) (objsDks : List (Obj × List Key)) :
    Keeps w s (prepareStream w s n objsDks).st := by
  -- the descriptor built from a state whose caches are those of `s`
  have fin : ∀ (s1 : BState) (uid : Nat), s1.envCfg = s.envCfg → s1.configValuesCache = s.configValuesCache →
      s1.out = s.out → (∀ od ∈ objsDks, ahas s.configValuesCache od.1 = true) →
      Keeps w s (prepareFinish w s1 n objsDks uid) := by
    intro s1 uid h1 h2 h3 hall
    have hst : (prepareFinish w s1 n objsDks uid).envCfg = s.envCfg ∧
        (prepareFinish w s1 n objsDks uid).configValuesCache = s.configValuesCache ∧
        (prepareFinish w s1 n objsDks uid).out = s.out ++ [descDoc s1 n (mkDesc w s1 objsDks uid)] := by
      unfold prepareFinish prepareStore
      split <;> simp [h1, h2, h3]
    refine ⟨hst.1, fun hc => ⟨?_, _, hst.2.2, ?_⟩⟩
    · intro o c hoc; rw [hst.2.1] at hoc; rw [hst.1]; exact hc o c hoc
    · intro doc hd _ _
      simp at hd; subst hd
      refine ⟨?_, ?_⟩
      · intro ob hob
        simp only [descDoc, mkDesc, configBlock, List.mem_map] at hob
        obtain ⟨od, hod, rfl⟩ := hob
        simp only
        obtain ⟨c, hcv⟩ := (ahas_iff _ _).1 (hall od hod)
        rw [h2, hcv, Option.getD_some]
        exact hc od.1 c hcv
      · simp [descDoc, mkDesc, configBlock, List.map_map, Function.comp_def]
  unfold prepareStream
  split
  · exact Keeps.refl w s
  · rename_i hany
    have hall : ∀ od ∈ objsDks, ahas s.configValuesCache od.1 = true := by
      intro od hod
      simp only [List.any_eq_true, Bool.not_eq_true', not_exists, not_and, Bool.not_eq_false] at hany
      exact hany od hod
    split
    · split
      · exact (Keeps.of_rfl w rfl)
      · exact fin _ _ rfl rfl rfl hall
    · exact fin _ _ rfl rfl rfl hall

--@@OVERRIDE keeps_closeRunTail
theorem keeps_closeRunTail (w : World) (s : BState) (e r : String) : Keeps w s (closeRunTail s e r).st := by
  unfold closeRunTail
  split
  · exact Keeps.refl w s
  · simp only [Res.ok_st]
    split
    · refine Keeps.trans w _ _ _ ?_ (Keeps.of_rfl w rfl)
      refine Keeps.trans w _ _ _ ?_ (keeps_resetCp w _)
      exact Keeps.of_out w _ rfl rfl rfl (by intro doc hd; simp at hd; subst hd; simp)
    · exact Keeps.of_out w _ rfl rfl rfl (by intro doc hd; simp at hd; subst hd; simp)

--@@OVERRIDE keeps_packOne
theorem keeps_packOne (w : World) (n : Name) (d : Desc) (p : PackSt) (a : Asset) (s : BState)
    (h : Keeps w s p.st) : Keeps w s (packOne n d p a).st := by
  unfold packOne
  split
  · exact h
  · cases a with
    | resource uid key =>
      simp only
      split
      · exact h
      · split
        · exact Keeps.trans w _ _ _ h (Keeps.of_rfl w rfl)
        · exact Keeps.trans w _ _ _ h (Keeps.of_out w _ rfl rfl rfl (by intro doc hd; simp at hd; subst hd; simp))
    | datum uid resource descFilled start stop seqFilled =>
      simp only
      split
      · exact h
      · split
        · exact h
        · split
          · exact h
          · split
            · exact h
            · split
              · exact h
              · exact Keeps.trans w _ _ _ h (Keeps.of_out w _ rfl rfl rfl (by intro doc hd; simp at hd; subst hd; simp))
