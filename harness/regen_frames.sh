#!/bin/sh
# regenerate every generated frame-lemma file (run after changing Bundler/Model.lean or templates/)
cd "$(dirname "$0")"
set -e
python3 gen_frames.py Bundle "(s.readCache, s.objsRead, s.bundleName, s.bundling)" "the bundle fields (_read_cache, _objs_read, _bundle_name, bundling)"
python3 gen_frames.py Desc "s.descriptors" "_descriptors / _descriptor_objs"
python3 gen_frames.py DescribeCache "s.describeCache" "_describe_cache (monotone, new entries are the device's describe())" templates/DescribeCache.spec.lean
python3 gen_frames.py Docs "(s.out, s.descriptors)" "the output / _descriptors (every cached descriptor has been emitted)" templates/Docs.spec.lean
python3 gen_frames.py OutDesc "s.out" "the output, growing by descriptor documents only" templates/OutDesc.spec.lean
python3 gen_frames.py Out "s.out" "the output (no document emitted)"
python3 gen_frames.py CfgDocs "(s.envCfg, s.configValuesCache, s.out)" "the devices configuration / the configuration cache / descriptors recording current configuration" templates/CfgDocs.spec.lean
python3 gen_frames.py Refs "(s.nextUid, s.descriptors, s.out)" "uids and descriptor references" templates/Refs.spec.lean
python3 gen_frames.py NodupDesc "s.descriptors" "distinctness of the stream names in _descriptors" templates/NodupDesc.spec.lean
python3 gen_frames.py DescWF "s.descriptors" "well-formedness of stored descriptors (keys = keys of their objects)" templates/DescWF.spec.lean
python3 gen_frames.py EvLog "(s.out, s.log)" "output and ghost log growing together (event documents = logged emits, in order)" templates/EvLog.spec.lean
python3 gen_frames.py Ctr "(s.seq, s.seqCopy, s.cpCleared, s.log, s.streams, akeys s.descriptors)" "the sequence counters, their copy, the ghost log, the stream registry and the names in _descriptors"
cd ../lean && lake build BlueskyVerif.Lemmas.BundlerKeepsCtr && cd ../harness
python3 gen_frames.py CtrRef "(s.seq, s.seqCopy, s.cpCleared, s.log, s.streams, akeys s.descriptors)" "refinement of the abstract counter machine by the ghost log" templates/CtrRef.spec.lean
for f in templates/*.extra; do [ -f "$f" ] && sh "$f"; done
true
