#!/bin/sh
# regenerate every generated frame-lemma file (run after changing Bundler/Model.lean or templates/)
cd "$(dirname "$0")"
set -e
python3 gen_frames.py Bundle "(s.readCache, s.objsRead, s.bundleName, s.bundling)" "the bundle fields (_read_cache, _objs_read, _bundle_name, bundling)"
python3 gen_frames.py Desc "s.descriptors" "_descriptors / _descriptor_objs"
python3 gen_frames.py DescribeCache "s.describeCache" "_describe_cache (monotone, new entries are the device's describe())" templates/DescribeCache.spec.lean
python3 gen_frames.py Docs "(s.out, s.descriptors)" "the output / _descriptors (every cached descriptor has been emitted)" templates/Docs.spec.lean
python3 gen_frames.py OutDesc "s.out" "the output, growing by descriptor documents only" templates/OutDesc.spec.lean
python3 gen_frames.py Out "s.out" "the output (no document emitted)"
python3 gen_frames.py CfgDocs "(s.envCfg, s.configValuesCache, s.out)" "the devices configuration / the configuration cache / descriptors recording current configuration" templates/CfgDocs.spec.lean
python3 gen_frames.py Refs "(s.nextUid, s.descriptors, s.out)" "uids and descriptor references" templates/Refs.spec.lean
python3 gen_frames.py NodupDesc "s.descriptors" "distinctness of the stream names in _descriptors" templates/NodupDesc.spec.lean
python3 gen_frames.py DescWF "s.descriptors" "well-formedness of stored descriptors (keys = keys of their objects)" templates/DescWF.spec.lean
for f in templates/*.extra; do [ -f "$f" ] && sh "$f"; done
true
